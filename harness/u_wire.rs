//! C11 — wire messages: encoded_size / encode / decode / strict-prefix, differential against the
//! independent reference encoder in `ref_codec`.
use super::ref_codec::{eq_bytes, uint_size, W};
use super::util::*;
use crate::{
    DataBlock, DataHash, DataSeek, DataUpgrade, Node, RequestBlock, RequestSeek, RequestUpgrade,
};
use compact_encoding::CompactEncoding;

fn ref_nodes<const CAP: usize>(w: &mut W<CAP>, nodes: &[Node]) {
    w.uint(nodes.len() as u64);
    w.mark();
    let mut i = 0;
    while i < nodes.len() {
        w.node(nodes[i].index, nodes[i].length, &hash32(&nodes[i]));
        w.mark();
        i += 1;
    }
}

/// The four obligations of C11 for one value `v` whose reference encoding is `r`.
fn check<T: CompactEncoding + PartialEq, const CAP: usize>(v: &T, r: &W<CAP>) {
    // (i) encoded_size announces exactly the reference length
    let n = v.encoded_size().unwrap();
    assert!(n == r.pos);
    // (i') encode into a larger buffer consumes exactly n bytes
    let mut buf = [0u8; CAP];
    let rest_len = v.encode(&mut buf).unwrap().len();
    assert!(rest_len == CAP - n);
    // (ii) bytes are the reference bytes: both buffers start zeroed and n == r.pos, so comparing
    // one byte at a symbolic position j < CAP decides equality of all bytes (solver-quantified).
    let j: usize = kani::any();
    kani::assume(j < CAP);
    assert!(buf[j] == r.buf[j]);
    // (iii) decode returns the value, nothing left over
    let (d, rest) = T::decode(&buf[..n]).unwrap();
    assert!(rest.is_empty());
    assert!(d == *v);
    // (iv) every strict prefix is an error (and no panic: Kani's checks)
    let k: usize = kani::any();
    kani::assume(k < n);
    assert!(T::decode(&buf[..k]).is_err());
    // (v) encoding into a too-short buffer is an error, not a panic
    let mut small = [0u8; CAP];
    assert!(v.encode(&mut small[..k]).is_err());
    kani::cover!(true, "reached end");
}


/// Indices whose flat-tree depth is >= 62 make `flat_tree::parent` overflow a shift inside
/// `Node::new` (known finding D8; debug/overflow-checked builds only).  Every harness except
/// `c11_node_extreme_index` stays below that.
fn sane_index(i: u64) -> bool {
    i.trailing_ones() < 62
}

fn sym_node() -> Node {
    let index: u64 = kani::any();
    kani::assume(sane_index(index)); // before Node::new: assumptions are not retroactive
    let hash: [u8; 32] = kani::any();
    Node::new(index, hash.to_vec(), kani::any())
}

/// A node whose varint fields have *concrete* width (so that buffer positions after it stay
/// concrete) and whose 32 hash bytes are symbolic.
fn fixed_width_node(index: u64, length: u64) -> Node {
    let hash: [u8; 32] = kani::any();
    Node::new(index, hash.to_vec(), length)
}

#[kani::proof]
#[kani::stub(std::fmt::format, stub_format)]
fn c11_node() {
    let v = sym_node();
    let mut r = W::<56>::new();
    r.node(v.index, v.length, &hash32(&v));
    check(&v, &r);
}

/// Full u64 range for the node index, including depth >= 62 (2^62-1 .. 2^64-1).
#[kani::proof]
#[kani::stub(std::fmt::format, stub_format)]
fn c11_node_extreme_index() {
    let index: u64 = kani::any();
    kani::assume(!sane_index(index));
    let hash: [u8; 32] = kani::any();
    let mut r = W::<56>::new();
    r.node(index, 1, &hash);
    let (d, rest) = Node::decode(r.written()).unwrap();
    assert!(rest.is_empty() && d.index == index);
    kani::cover!(true, "reached end");
}

#[kani::proof]
#[kani::stub(std::fmt::format, stub_format)]
fn c11_request_block() {
    let v = RequestBlock { index: kani::any(), nodes: kani::any() };
    let mut r = W::<24>::new();
    r.uint(v.index);
    r.uint(v.nodes);
    check(&v, &r);
}

#[kani::proof]
#[kani::stub(std::fmt::format, stub_format)]
fn c11_request_seek() {
    let v = RequestSeek { bytes: kani::any() };
    let mut r = W::<16>::new();
    r.uint(v.bytes);
    check(&v, &r);
}

#[kani::proof]
#[kani::stub(std::fmt::format, stub_format)]
fn c11_request_upgrade() {
    let v = RequestUpgrade { start: kani::any(), length: kani::any() };
    let mut r = W::<24>::new();
    r.uint(v.start);
    r.uint(v.length);
    check(&v, &r);
}

// ---- list-bearing messages.
// Measured: every symbolic-*width* varint makes all later buffer positions symbolic, and a list
// count or byte-string length read back from a symbolic position makes `Vec::with_capacity(len)` /
// `to_vec()` a symbolic-size allocation, which exhausts 12 GB in CNF conversion.  So each message
// is covered by two kinds of harness (the split is part of the stated bound):
//   *_layout : scalar prefix = concrete values on varint class boundaries (so list counts sit at
//              concrete positions); list lengths 0/1/2 solver-chosen; node index/length/hash and
//              byte-string contents symbolic wherever nothing length-like follows them;
//   *_prefix : scalar prefix full-range symbolic, lists empty: encoded_size + encode vs reference
//              (no decode: that is where the symbolic-size allocation would come from).

/// encode-side obligations only.
fn check_encode<T: CompactEncoding, const CAP: usize>(v: &T, r: &W<CAP>) {
    let n = v.encoded_size().unwrap();
    assert!(n == r.pos);
    let mut buf = [0u8; CAP];
    let rest_len = v.encode(&mut buf).unwrap().len();
    assert!(rest_len == CAP - n);
    let j: usize = kani::any();
    kani::assume(j < CAP);
    assert!(buf[j] == r.buf[j]);
    kani::cover!(true, "reached end");
}

/// `cnt` fixed-width nodes with symbolic hashes (cnt is a compile-time constant per harness).
fn fw_nodes(cnt: usize) -> Vec<Node> {
    let mut v = Vec::with_capacity(2);
    if cnt == 2 {
        v.push(fixed_width_node(0xfd, 0x1_0000));
    }
    if cnt >= 1 {
        v.push(fixed_width_node(2, 0xfc));
    }
    v
}

/// Obligations (i)-(iii) as in `check`; n is concrete here because all widths are.
/// (iv) strict prefixes: a symbolic cut k makes the decoder's partially built `Vec<Node>` states
/// merge, which does not fit in memory, so cuts are concrete: `ALL == false` checks the cuts at
/// every field boundary recorded by the reference encoder (boundary and boundary-1) plus n-1;
/// `ALL == true` (thorough tier) checks every k < n.
fn check_layout<T: CompactEncoding + PartialEq, const CAP: usize, const ALL: bool>(v: &T, r: &W<CAP>) {
    let n = v.encoded_size().unwrap();
    assert!(n == r.pos);
    let mut buf = [0u8; CAP];
    let rest_len = v.encode(&mut buf).unwrap().len();
    assert!(rest_len == CAP - n);
    let j: usize = kani::any();
    kani::assume(j < CAP);
    assert!(buf[j] == r.buf[j]);
    // decode from the reference buffer (just shown byte-equal): it was written by direct indexing,
    // so CBMC keeps its constant bytes constant (the crate writes through memcpy)
    let buf = &r.buf;
    let n = r.pos; // == encoded_size (asserted above); a constant for CBMC, unlike the crate-computed n
    let (d, rest) = T::decode(&buf[..n]).unwrap();
    assert!(rest.is_empty());
    assert!(d == *v);
    if ALL {
        let mut k = 0;
        while k < n {
            assert!(T::decode(&buf[..k]).is_err());
            k += 1;
        }
    } else {
        let mut m = 0;
        while m < r.nmarks {
            let k = r.marks[m];
            if k < n {
                assert!(T::decode(&buf[..k]).is_err());
            }
            if k >= 1 && k - 1 < n {
                assert!(T::decode(&buf[..k - 1]).is_err());
            }
            m += 1;
        }
        assert!(T::decode(&buf[..n - 1]).is_err());
    }
    kani::cover!(true, "reached end");
}

macro_rules! layout_harness {
    ($name:ident, $cap:expr, $cnt:expr, $all:expr, $build:expr, $refenc:expr) => {
        #[kani::proof]
        #[kani::stub(std::fmt::format, stub_format)]
        fn $name() {
            let v = $build($cnt);
            let mut r = W::<$cap>::new();
            $refenc(&mut r, &v);
            check_layout::<_, $cap, $all>(&v, &r);
        }
    };
}

fn mk_hash(cnt: usize) -> DataHash {
    DataHash { index: 0xffff, nodes: fw_nodes(cnt) }
}
fn ref_hash<const C: usize>(r: &mut W<C>, v: &DataHash) {
    r.uint(v.index);
    r.mark();
    ref_nodes(r, &v.nodes);
}
layout_harness!(c11_data_hash_layout0, 8, 0, false, mk_hash, ref_hash);
layout_harness!(c11_data_hash_layout0_allcuts, 8, 0, true, mk_hash, ref_hash);
layout_harness!(c11_data_hash_layout1, 48, 1, false, mk_hash, ref_hash);
layout_harness!(c11_data_hash_layout1_allcuts, 48, 1, true, mk_hash, ref_hash);
layout_harness!(c11_data_hash_layout2, 88, 2, false, mk_hash, ref_hash);
layout_harness!(c11_data_hash_layout2_allcuts, 88, 2, true, mk_hash, ref_hash);

fn mk_seek(cnt: usize) -> DataSeek {
    DataSeek { bytes: 0x1_0000_0000, nodes: fw_nodes(cnt) }
}
fn ref_seek<const C: usize>(r: &mut W<C>, v: &DataSeek) {
    r.uint(v.bytes);
    r.mark();
    ref_nodes(r, &v.nodes);
}
layout_harness!(c11_data_seek_layout0, 16, 0, false, mk_seek, ref_seek);
layout_harness!(c11_data_seek_layout0_allcuts, 16, 0, true, mk_seek, ref_seek);
layout_harness!(c11_data_seek_layout2, 96, 2, false, mk_seek, ref_seek);
layout_harness!(c11_data_seek_layout2_allcuts, 96, 2, true, mk_seek, ref_seek);

fn mk_block(cnt: usize) -> DataBlock {
    // value: 3 symbolic bytes (concrete length keeps the node count at a concrete position)
    DataBlock { index: 0xfc, value: vec![kani::any(), kani::any(), kani::any()], nodes: fw_nodes(cnt) }
}
fn ref_block<const C: usize>(r: &mut W<C>, v: &DataBlock) {
    r.uint(v.index);
    r.bytes(&v.value);
    r.mark();
    ref_nodes(r, &v.nodes);
}
layout_harness!(c11_data_block_layout0, 16, 0, false, mk_block, ref_block);
layout_harness!(c11_data_block_layout0_allcuts, 16, 0, true, mk_block, ref_block);
layout_harness!(c11_data_block_layout1, 56, 1, false, mk_block, ref_block);
layout_harness!(c11_data_block_layout1_allcuts, 56, 1, true, mk_block, ref_block);
layout_harness!(c11_data_block_layout2, 96, 2, false, mk_block, ref_block);
layout_harness!(c11_data_block_layout2_allcuts, 96, 2, true, mk_block, ref_block);

fn mk_upgrade(cnt: usize) -> DataUpgrade {
    let sig: [u8; 64] = kani::any();
    DataUpgrade {
        start: 0xfd,
        length: 0x1_0000,
        nodes: fw_nodes(cnt),
        additional_nodes: fw_nodes(2 - cnt),
        signature: sig.to_vec(),
    }
}
fn ref_upgrade<const C: usize>(r: &mut W<C>, v: &DataUpgrade) {
    r.uint(v.start);
    r.uint(v.length);
    r.mark();
    ref_nodes(r, &v.nodes);
    ref_nodes(r, &v.additional_nodes);
    r.bytes(&v.signature);
}
layout_harness!(c11_data_upgrade_layout0, 160, 0, false, mk_upgrade, ref_upgrade);
layout_harness!(c11_data_upgrade_layout0_allcuts, 160, 0, true, mk_upgrade, ref_upgrade);
layout_harness!(c11_data_upgrade_layout1, 160, 1, false, mk_upgrade, ref_upgrade);
layout_harness!(c11_data_upgrade_layout1_allcuts, 160, 1, true, mk_upgrade, ref_upgrade);
layout_harness!(c11_data_upgrade_layout2, 160, 2, false, mk_upgrade, ref_upgrade);
layout_harness!(c11_data_upgrade_layout2_allcuts, 160, 2, true, mk_upgrade, ref_upgrade);

#[kani::proof]
#[kani::stub(std::fmt::format, stub_format)]
fn c11_data_hash_prefix() {
    let v = DataHash { index: kani::any(), nodes: vec![] };
    let mut r = W::<16>::new();
    r.uint(v.index);
    r.uint(0);
    check_encode(&v, &r);
}

#[kani::proof]
#[kani::stub(std::fmt::format, stub_format)]
fn c11_data_seek_prefix() {
    let v = DataSeek { bytes: kani::any(), nodes: vec![] };
    let mut r = W::<16>::new();
    r.uint(v.bytes);
    r.uint(0);
    check_encode(&v, &r);
}

#[kani::proof]
#[kani::stub(std::fmt::format, stub_format)]
fn c11_data_block_prefix() {
    let v = DataBlock { index: kani::any(), value: any_bytes_upto4(), nodes: vec![] };
    let mut r = W::<24>::new();
    r.uint(v.index);
    r.bytes(&v.value);
    r.uint(0);
    check_encode(&v, &r);
}

#[kani::proof]
#[kani::stub(std::fmt::format, stub_format)]
fn c11_data_upgrade_prefix() {
    let v = DataUpgrade {
        start: kani::any(),
        length: kani::any(),
        nodes: vec![],
        additional_nodes: vec![],
        signature: vec![],
    };
    let mut r = W::<32>::new();
    r.uint(v.start);
    r.uint(v.length);
    r.uint(0);
    r.uint(0);
    r.bytes(&v.signature);
    check_encode(&v, &r);
}

#[kani::proof]
#[kani::stub(std::fmt::format, stub_format)]
fn c11_data_upgrade_sig() {
    let v = DataUpgrade {
        start: 0x1_0000_0000,
        length: 1,
        nodes: vec![],
        additional_nodes: vec![],
        signature: any_bytes_upto4(),
    };
    let mut r = W::<32>::new();
    r.uint(v.start);
    r.uint(v.length);
    r.uint(0);
    r.uint(0);
    r.bytes(&v.signature);
    check(&v, &r);
}

/// The integer codec itself over the full u64 range, including the list/byte-string length prefix
/// (usize) whose own varint boundaries (253, 65536) the per-message harnesses do not reach.
#[kani::proof]
#[kani::stub(std::fmt::format, stub_format)]
fn c11_uint_codec() {
    let v: u64 = kani::any();
    let mut r = W::<16>::new();
    r.uint(v);
    check(&v, &r);
    let u = v as usize;
    assert!(compact_encoding::encoded_size_usize(u) == uint_size(v));
    let mut buf = [0u8; 16];
    let left = compact_encoding::encode_usize_var(&u, &mut buf).unwrap().len();
    assert!(left == 16 - r.pos);
    let j: usize = kani::any();
    kani::assume(j < 16);
    assert!(buf[j] == r.buf[j]);
    let (d, rest) = compact_encoding::decode_usize(&buf[..r.pos]).unwrap();
    assert!(d == u && rest.is_empty());
}
