//! S-harnesses: child module of `hypercore::core` in overlay variant "s" (real `core.rs`, oplog,
//! tree, bitfield, block store; MODEL storage layer = models/storage_model.rs; MODEL
//! async-broadcast).  They drive the real async public API (`Hypercore::new`, `append`,
//! `append_batch`, `clear`, `get`, `has`, `info`, `make_read_only`, `verify_and_apply_proof`)
//! with a poll-once executor: the model storage never yields, so every future is ready at the
//! first poll (a `Pending` is an assertion failure).
#![allow(unused_imports, dead_code, future_incompatible, rust_2018_idioms, unsafe_code, missing_docs, missing_debug_implementations, unreachable_pub, clippy::all)]
use super::*;
use crate::common::{BitfieldUpdate, Store, StoreInfo};
use crate::storage::{journal, LogRec, Storage, K_DEL, K_TRUNC, K_WRITE};
use crate::verif::util::*;
use ed25519_dalek::SigningKey;
use std::future::Future;
use std::pin::Pin;
use std::task::{Context, Poll, RawWaker, RawWakerVTable, Waker};

fn rw_clone(_: *const ()) -> RawWaker {
    RawWaker::new(std::ptr::null(), &VTABLE)
}
fn rw_noop(_: *const ()) {}
static VTABLE: RawWakerVTable = RawWakerVTable::new(rw_clone, rw_noop, rw_noop, rw_noop);

/// poll once; the model storage never yields
pub(crate) fn block_on<F: Future>(f: F) -> F::Output {
    let mut f = Box::pin(f);
    let waker = unsafe { Waker::from_raw(RawWaker::new(std::ptr::null(), &VTABLE)) };
    let mut cx = Context::from_waker(&waker);
    match f.as_mut().poll(&mut cx) {
        Poll::Ready(v) => v,
        Poll::Pending => panic!("future pending: the model storage never yields"),
    }
}

pub(crate) fn writer_keypair() -> PartialKeypair {
    let sk = SigningKey::from_bytes(&[7u8; 32]);
    PartialKeypair { public: sk.verifying_key(), secret: Some(sk) }
}

pub(crate) fn create(st: Storage) -> Result<Hypercore, HypercoreError> {
    let mut o = HypercoreOptions::new();
    o.key_pair = Some(writer_keypair());
    Hypercore::new(st, o)
}

pub(crate) fn reopen(st: Storage) -> Result<Hypercore, HypercoreError> {
    let mut o = HypercoreOptions::new();
    o.open = true;
    Hypercore::new(st, o)
}

/// tear the instance down without running drop glue (symbolic-execution cost) and hand back the
/// storage, as a process exit would leave it
pub(crate) fn into_storage(hc: Hypercore) -> Storage {
    let Hypercore { key_pair, storage, oplog, tree, block_store, bitfield, header, events, .. } = hc;
    std::mem::forget(key_pair);
    std::mem::forget(oplog);
    std::mem::forget(tree);
    std::mem::forget(block_store);
    std::mem::forget(bitfield);
    std::mem::forget(header);
    std::mem::forget(events);
    storage
}

// ------------------------------------------------------------------------------------ probes
#[kani::proof]
#[kani::stub(std::fmt::format, stub_format)]
#[kani::stub(std::string::String::from_utf8, stub_from_utf8)]
fn s00_probe_new() {
    let hc = create(Storage::model_new()).unwrap();
    assert!(hc.info().length == 0);
    assert!(*hc.storage.file(&Store::Oplog).len > 0);
    kani::cover!(true, "reached end");
    std::mem::forget(hc);
}

#[kani::proof]
#[kani::stub(std::fmt::format, stub_format)]
#[kani::stub(std::string::String::from_utf8, stub_from_utf8)]
fn s00_probe_new_append() {
    let mut hc = create(Storage::model_new()).unwrap();
    let out = hc.append(&[0x61]).unwrap();
    assert!(out.length == 1 && out.byte_length == 1);
    assert!(hc.has(0));
    kani::cover!(true, "reached end");
    std::mem::forget(hc);
}

#[kani::proof]
#[kani::stub(std::fmt::format, stub_format)]
#[kani::stub(std::string::String::from_utf8, stub_from_utf8)]
fn s00_probe_new_append_reopen_get() {
    let mut hc = create(Storage::model_new()).unwrap();
    let out = hc.append(&[0x61]).unwrap();
    assert!(out.length == 1 && out.byte_length == 1);
    let mut st = into_storage(hc);
    st.model_restart();
    let mut hc = reopen(st).unwrap();
    assert!(hc.info().length == 1);
    let v = hc.get(0).unwrap();
    assert!(v.is_some());
    let v = v.unwrap();
    assert!(v.len() == 1 && v[0] == 0x61);
    kani::cover!(true, "reached end");
    std::mem::forget(hc);
    std::mem::forget(v);
}

#[kani::proof]
#[kani::stub(std::fmt::format, stub_format)]
#[kani::stub(std::string::String::from_utf8, stub_from_utf8)]
fn s00_micro_read() {
    use crate::common::StoreInfoInstruction;
    let mut st = Storage::model_new();
    let v = st.read_infos_to_vec(&[StoreInfoInstruction::new_all_content(Store::Oplog)]).unwrap();
    assert!(v.len() == 1);
    assert!(v[0].data.as_ref().unwrap().len() == 0);
    st.flush_infos(&[StoreInfo::new_content(Store::Oplog, 3, &[1u8, 2, 3])]).unwrap();
    let v = st.read_infos_to_vec(&[StoreInfoInstruction::new_all_content(Store::Oplog)]).unwrap();
    let d = v[0].data.as_ref().unwrap();
    assert!(d.len() == 6 && d[2] == 0 && d[3] == 1 && d[5] == 3);
    kani::cover!(true, "reached end");
}

#[kani::proof]
#[kani::stub(std::fmt::format, stub_format)]
#[kani::stub(std::string::String::from_utf8, stub_from_utf8)]
fn s00_micro_open1() {
    use crate::common::StoreInfoInstruction;
    use futures::future::Either;
    let mut st = Storage::model_new();
    let kp = Some(writer_keypair());
    let ins = match Oplog::open(&kp, None).unwrap() {
        Either::Left(i) => i,
        Either::Right(_) => unreachable!(),
    };
    let info = st.read_info(ins).unwrap();
    assert!(info.data.as_ref().unwrap().len() == 0);
    kani::cover!(true, "reached end");
}

#[kani::proof]
#[kani::stub(std::fmt::format, stub_format)]
#[kani::stub(std::string::String::from_utf8, stub_from_utf8)]
fn s00_micro_open2() {
    use crate::common::StoreInfoInstruction;
    use futures::future::Either;
    let mut st = Storage::model_new();
    let kp = Some(writer_keypair());
    let ins = match Oplog::open(&kp, None).unwrap() {
        Either::Left(i) => i,
        Either::Right(_) => unreachable!(),
    };
    let info = st.read_info(ins).unwrap();
    let out = match Oplog::open(&kp, Some(info)).unwrap() {
        Either::Right(o) => o,
        Either::Left(_) => unreachable!(),
    };
    assert!(out.infos_to_flush.len() == 2);
    st.flush_infos(&out.infos_to_flush).unwrap();
    assert!(*st.file(&Store::Oplog).len == 8192);
    kani::cover!(true, "reached end");
    std::mem::forget(out);
}

fn open_ins(kp: &Option<PartialKeypair>) -> crate::common::StoreInfoInstruction {
    use futures::future::Either;
    match Oplog::open(kp, None).unwrap() {
        Either::Left(i) => i,
        Either::Right(_) => unreachable!(),
    }
}

#[kani::proof]
#[kani::stub(std::fmt::format, stub_format)]
#[kani::stub(std::string::String::from_utf8, stub_from_utf8)]
fn s00_micro_c1() {
    let ins = open_ins(&None);
    assert!(ins.length.is_none());
    assert!(ins.index == 0);
    assert!(!ins.allow_miss);
}

#[kani::proof]
#[kani::stub(std::fmt::format, stub_format)]
#[kani::stub(std::string::String::from_utf8, stub_from_utf8)]
fn s00_micro_c2() {
    use crate::common::StoreInfoInstruction;
    let ins = StoreInfoInstruction::new_all_content(Store::Oplog);
    assert!(ins.length.is_none());
    assert!(ins.index == 0);
    let r: Result<futures::future::Either<StoreInfoInstruction, u8>, HypercoreError> = Ok(futures::future::Either::Left(ins));
    match r.unwrap() {
        futures::future::Either::Left(i) => assert!(i.length.is_none()),
        _ => unreachable!(),
    }
}

#[inline(never)]
fn disc_of(info: Option<StoreInfo>) -> u8 {
    match info {
        None => 1,
        Some(i) => {
            std::mem::forget(i);
            2
        }
    }
}

#[kani::proof]
fn s00_micro_c3() {
    assert!(disc_of(None) == 1);
}

#[kani::proof]
fn s00_micro_c4() {
    let i = StoreInfo::new_content(Store::Oplog, 3, &[1u8, 2, 3]);
    assert!(disc_of(Some(i)) == 2);
}

#[inline(never)]
fn disc_of_kp(kp: &Option<PartialKeypair>) -> u8 {
    match kp {
        None => 1,
        Some(_) => 2,
    }
}

#[kani::proof]
fn s00_micro_c5() {
    assert!(disc_of_kp(&None) == 1);
    let k = Some(writer_keypair());
    assert!(disc_of_kp(&k) == 2);
}
