//! Child module of `hypercore::bitfield::dynamic` (attached by the overlay).
//! C08 (has() exact for large/sparse/reopened cores), C01/C06 (bitfield page persistence/layout).
#![allow(unused_imports, dead_code, future_incompatible, rust_2018_idioms, unsafe_code, missing_docs, missing_debug_implementations, unreachable_pub, clippy::all)]
use super::super::fixed::{FixedBitfield, FIXED_BITFIELD_BITS_LENGTH, FIXED_BITFIELD_BYTES_LENGTH};
use super::*;
use crate::common::{BitfieldUpdate, Store, StoreInfo, StoreInfoType};
use crate::verif::util::*;
use futures::future::Either;

const PAGE: u64 = 32768;

/// Symbolic (start, len) windowed around a boundary chosen symbolically from the set that matters
/// for a 32-bit-word / 1024-word page layout: start within +-64 bits of the boundary, 1 <= len <= 96.
fn window_in_page() -> (u32, u32) {
    let which: u8 = kani::any();
    let boundary: u32 = match which % 4 {
        0 => 64,          // low end (start may be 0..128)
        1 => 32 * 512,    // a word boundary in the middle
        2 => 32 * 1023,   // last word
        _ => 32768 - 96,  // page end
    };
    let off: u32 = kani::any();
    kani::assume(off <= 128);
    let start = boundary - 64 + off;
    let len: u32 = kani::any();
    kani::assume(len >= 1 && len <= 96);
    kani::assume(start < 32768 && start + len <= 32768);
    (start, len)
}

fn in_range(i: u64, start: u64, len: u64) -> bool {
    i >= start && i < start + len
}

fn empty_bitfield() -> DynamicBitfield {
    match DynamicBitfield::open(Some(StoreInfo::new_content(Store::Bitfield, 0, &[]))) {
        Either::Right(b) => b,
        Either::Left(_) => unreachable!(),
    }
}

// ----------------------------------------------------------------------------- FixedBitfield

/// set(i,v) then get(j), both indices over the whole page.
#[kani::proof]
fn c08_fixed_set_get() {
    let mut b = FixedBitfield::new();
    let i: u32 = kani::any();
    let k: u32 = kani::any();
    let j: u32 = kani::any();
    kani::assume(i < 32768 && j < 32768 && k < 32768);
    assert!(b.set(i, true));
    assert!(!b.set(i, true)); // unchanged -> false
    let changed = b.set(k, true);
    assert!(changed == (k != i));
    assert!(b.get(j) == (j == i || j == k));
    let dropped = b.set(i, false);
    assert!(dropped);
    assert!(b.get(j) == (j == k && k != i));
    kani::cover!(true, "reached end");
}

/// two overlapping windowed set_range calls (set then set-or-clear), get(j) for every j.
#[kani::proof]
#[kani::stub(u32::pow, stub_pow2)]
fn c08_fixed_set_range() {
    let mut b = FixedBitfield::new();
    let (s0, l0) = window_in_page();
    let changed0 = b.set_range(s0, l0, true);
    assert!(changed0);
    let (s1, l1) = window_in_page();
    let v: bool = kani::any();
    let changed1 = b.set_range(s1, l1, v);
    let j: u32 = kani::any();
    kani::assume(j < 32768);
    let first = in_range(j as u64, s0 as u64, l0 as u64);
    let second = in_range(j as u64, s1 as u64, l1 as u64);
    let expect = if second { v } else { first };
    assert!(b.get(j) == expect);
    // the returned "changed" flag (it decides whether the page is written back on flush): true
    // iff some bit of the second range differed from v before the call -- whichever word it is in
    let (a0, e0, a1, e1) = (s0 as u64, s0 as u64 + l0 as u64, s1 as u64, s1 as u64 + l1 as u64);
    let overlap = a1 < e0 && a0 < e1;
    let inside_first = a0 <= a1 && e1 <= e0;
    let expect_changed = if v { !inside_first } else { overlap };
    assert!(changed1 == expect_changed);
    kani::cover!(changed1 && !v, "a clear that changes something");
    kani::cover!(!changed1, "an update that changes nothing");
    kani::cover!(true, "reached end");
}

/// A short symbolic range (1..=40 bits) anywhere near the boundaries of `window_in_page`.
fn short_window() -> (u32, u32) {
    let (s, l) = window_in_page();
    kani::assume(l <= 40);
    (s, l)
}

/// index_of(true/false) from a position within 30 bits before / inside the range, None at page end.
#[kani::proof]
#[kani::stub(u32::pow, stub_pow2)]
fn c08_fixed_index_of() {
    let mut b = FixedBitfield::new();
    let (s, l) = short_window();
    b.set_range(s, l, true);
    let back: u32 = kani::any();
    kani::assume(back <= 30 && back <= s);
    assert!(b.index_of(true, s - back) == Some(s));
    let inside: u32 = kani::any();
    kani::assume(inside < l);
    assert!(b.index_of(true, s + inside) == Some(s + inside));
    let end = s + l;
    if end < 32768 {
        assert!(b.index_of(false, s + inside) == Some(end));
    } else {
        assert!(b.index_of(false, s + inside) == None);
    }
    kani::cover!(true, "reached end");
}

#[kani::proof]
#[kani::stub(u32::pow, stub_pow2)]
fn c08_fixed_last_index_of() {
    let mut b = FixedBitfield::new();
    let (s, l) = short_window();
    b.set_range(s, l, true);
    let end = s + l;
    let inside: u32 = kani::any();
    kani::assume(inside < l);
    let fwd: u32 = kani::any();
    kani::assume(fwd <= 30 && end - 1 + fwd < 32768);
    assert!(b.last_index_of(true, end - 1 + fwd) == Some(end - 1));
    if s > 0 {
        assert!(b.last_index_of(false, s + inside) == Some(s - 1));
    } else {
        assert!(b.last_index_of(false, s + inside) == None);
    }
    kani::cover!(true, "reached end");
}

// --------------------------------------------------------------------------- DynamicBitfield

/// A symbolic range straddling (or near) a page edge: pages 0/1 or 1/2.
fn window_across_pages() -> (u64, u64) {
    let edge: u64 = if kani::any() { PAGE } else { 2 * PAGE };
    let off: u64 = kani::any();
    kani::assume(off <= 128);
    let start = edge - 64 + off;
    let len: u64 = kani::any();
    kani::assume(len >= 1 && len <= 96);
    (start, len)
}

/// Same idea with a *concrete* start (START is a const generic of the harness) and a symbolic
/// length: DynamicBitfield decides "does the page exist / insert it" from the page number, and a
/// symbolic page number sends CBMC through IntMap's rehash loops symbolically (out of memory);
/// with a concrete start the page numbers are constants and only the split arithmetic
/// (`min(j+length, 32768)`, per-page range lengths) and FixedBitfield stay symbolic.
fn sym_len() -> u64 {
    let len: u64 = kani::any();
    kani::assume(len >= 1 && len <= 96);
    len
}

fn dyn_set_range<const START: u64>() {
    let mut b = empty_bitfield();
    let l0 = sym_len();
    b.set_range(START, l0, true);
    let j: u64 = kani::any();
    kani::assume(j < 4 * PAGE);
    assert!(b.get(j) == in_range(j, START, l0));
    let far: u64 = kani::any();
    kani::assume(far >= 4 * PAGE);
    assert!(!b.get(far));
    kani::cover!(true, "reached end");
}
#[kani::proof]
#[kani::stub(u32::pow, stub_pow2)]
fn c08_dyn_set_range_edge1() {
    dyn_set_range::<{ PAGE - 40 }>();
}
#[kani::proof]
#[kani::stub(u32::pow, stub_pow2)]
fn c08_dyn_set_range_edge2() {
    dyn_set_range::<{ 2 * PAGE - 1 }>();
}
#[kani::proof]
#[kani::stub(u32::pow, stub_pow2)]
fn c08_dyn_set_range_pagestart() {
    dyn_set_range::<{ PAGE }>();
}

/// drop (clear) of a range straddling a page edge out of a larger held range.
#[kani::proof]
#[kani::stub(u32::pow, stub_pow2)]
fn c08_dyn_drop_across_pages() {
    let mut b = empty_bitfield();
    b.set_range(PAGE - 64, 128, true);
    let l1 = sym_len();
    b.update(&BitfieldUpdate { drop: true, start: PAGE - 30, length: l1 });
    let j: u64 = kani::any();
    kani::assume(j < 4 * PAGE);
    assert!(b.get(j) == (in_range(j, PAGE - 64, 128) && !in_range(j, PAGE - 30, l1)));
    kani::cover!(true, "reached end");
}

/// index_of(true, .) / last_index_of(true, .) across a missing page (replica holding blocks that
/// are pages apart): bits in page 0 and page 2 only.
#[kani::proof]
#[kani::stub(u32::pow, stub_pow2)]
fn c08_dyn_index_of_sparse() {
    let mut b = empty_bitfield();
    let a: u64 = PAGE - 7; // near the end of page 0 (concrete: see sym_len)
    let c: u64 = 2 * PAGE + 5; // near the start of page 2
    b.set_range(a, 1, true);
    b.set_range(c, 1, true);
    let p: u64 = kani::any();
    kani::assume(p > a && p < PAGE); // after a, still in page 0
    assert!(b.index_of(true, p) == Some(c));
    assert!(b.index_of(true, a) == Some(a));
    // from inside the missing page 1
    let q: u64 = kani::any();
    kani::assume(q >= 2 * PAGE - 20 && q < 2 * PAGE);
    assert!(b.index_of(true, q) == Some(c));
    assert!(b.last_index_of(true, c - 1) == Some(a));
    assert!(b.last_index_of(true, c) == Some(c));
    kani::cover!(true, "reached end");
}

// ------------------------------------------------------------------- persistence (C01/C06/C08)

/// to_bytes / flush layout: page p is written at byte offset 4096*p as 1024 little-endian 32-bit
/// words, i.e. block i of the page is bit i%8 of byte i/8 (the JS layout).
#[kani::proof]
#[kani::stub(u32::pow, stub_pow2)]
fn c08_dyn_flush_layout() {
    let mut b = empty_bitfield();
    let (s, l) = (PAGE - 50, sym_len());
    b.set_range(s, l, true);
    let infos = b.flush();
    let first_page = s / PAGE;
    let last_page = (s + l - 1) / PAGE;
    assert!(infos.len() as u64 == last_page - first_page + 1);
    let n: usize = kani::any();
    kani::assume(n < infos.len());
    let info = &infos[n];
    assert!(info.store == Store::Bitfield && !info.miss && info.info_type == StoreInfoType::Content);
    let page = info.index / 4096;
    assert!(info.index % 4096 == 0 && page >= first_page && page <= last_page);
    if infos.len() == 2 {
        assert!(infos[0].index != infos[1].index);
    }
    let data = info.data.as_ref().unwrap();
    assert!(data.len() == 4096);
    let k: u64 = kani::any();
    kani::assume(k < PAGE);
    let bit = (data[(k / 8) as usize] >> (k % 8)) & 1 == 1;
    assert!(bit == in_range(page * PAGE + k, s, l));
    // nothing left to flush
    assert!(b.flush().is_empty());
    kani::cover!(true, "reached end");
}

/// open on a one-page, a two-page (a core longer than 32768 blocks) and a short bitfield file:
/// no panic, and has(j) is exactly bit j of the file for every j < 4 pages.  The file content is
/// zero except one symbolic byte at offset AT (concrete per harness instance: first/last byte of
/// each page), which is enough to tell pages, words and bits apart.
fn open_image<const N: usize, const AT: usize>() {
    let mut image = [0u8; N];
    let x: u8 = kani::any();
    image[AT] = x;
    let b2 = match DynamicBitfield::open(Some(StoreInfo::new_content(Store::Bitfield, 0, &image))) {
        Either::Right(b) => b,
        Either::Left(_) => unreachable!(),
    };
    let j: u64 = kani::any();
    kani::assume(j < 4 * PAGE);
    let expect = (j / 8) as usize == AT && (x >> (j % 8)) & 1 == 1;
    assert!(b2.get(j) == expect);
    kani::cover!(true, "reached end");
}

#[kani::proof]
fn c08_dyn_open_one_page_first() {
    open_image::<4096, 0>();
}
#[kani::proof]
fn c08_dyn_open_one_page_last() {
    open_image::<4096, 4095>();
}
#[kani::proof]
fn c08_dyn_open_two_pages_p0() {
    open_image::<8192, 1027>();
}
#[kani::proof]
fn c08_dyn_open_two_pages_p1_first() {
    open_image::<8192, 4096>();
}
#[kani::proof]
fn c08_dyn_open_two_pages_p1_last() {
    open_image::<8192, 8191>();
}
/// A file that ends in the middle of a page (length a multiple of 4).
#[kani::proof]
fn c08_dyn_open_partial_page() {
    open_image::<4100, 4099>();
}

/// The size query that precedes the content read: only whole 32-bit words are requested.
#[kani::proof]
fn c08_bitfield_open_size_step() {
    let len: u64 = kani::any();
    kani::assume(len < (1 << 40));
    match DynamicBitfield::open(Some(StoreInfo::new_size(Store::Bitfield, 0, len))) {
        Either::Left(instr) => {
            assert!(instr.store == Store::Bitfield && instr.index == 0);
            assert!(instr.length == Some(len - (len % 4)));
        }
        Either::Right(_) => assert!(false),
    }
    kani::cover!(true, "reached end");
}
