//! Child module of `hypercore::crypto::hash` (attached by the overlay).
//! C05: what exactly is handed to the hash function (framing), with the recording hash model.
#![allow(unused_imports, dead_code, future_incompatible, rust_2018_idioms, unsafe_code, missing_docs, missing_debug_implementations, unreachable_pub, clippy::all)]
use super::*;
use crate::verif::util::*;
use blake2::model;

/// byte `i` of the `k`-th recorded hash input
fn logged(k: usize, i: usize) -> u8 {
    model::log_entry(k).0[i]
}
fn le64(v: u64, i: usize) -> u8 {
    (v >> (8 * i)) as u8
}

/// Hypercore v10 leaf: BLAKE2b-256( 0x00 || LE64(len) || data )
#[kani::proof]
#[kani::stub(std::fmt::format, stub_format)]
fn c05_leaf_framing() {
    model::reset();
    model::set_record(true);
    let data = any_bytes_upto4();
    let _h = Hash::data(&data);
    assert!(model::log_len() == 1);
    let (_, n) = model::log_entry(0);
    assert!(n == 9 + data.len());
    assert!(logged(0, 0) == 0x00);
    let j: usize = kani::any();
    kani::assume(j < 8);
    assert!(logged(0, 1 + j) == le64(data.len() as u64, j));
    let k: usize = kani::any();
    kani::assume(k < data.len());
    assert!(logged(0, 9 + k) == data[k]);
    kani::cover!(data.len() == 4, "4-byte block");
    kani::cover!(true, "reached end");
}

/// parent: BLAKE2b-256( 0x01 || LE64(left.len + right.len) || left.hash || right.hash ), children
/// ordered by tree index whatever the argument order.
#[kani::proof]
#[kani::stub(std::fmt::format, stub_format)]
fn c05_parent_framing() {
    model::reset();
    model::set_record(true);
    let (ia, ib): (u64, u64) = (kani::any(), kani::any());
    let (la, lb): (u64, u64) = (kani::any(), kani::any());
    kani::assume(ia < (1 << 40) && ib < (1 << 40) && ia != ib && la < (1 << 40) && lb < (1 << 40));
    let (ha, hb): ([u8; 32], [u8; 32]) = (kani::any(), kani::any());
    let a = Node::new(ia, ha.to_vec(), la);
    let b = Node::new(ib, hb.to_vec(), lb);
    let _h = Hash::parent(&a, &b);
    assert!(model::log_len() == 1);
    let (_, n) = model::log_entry(0);
    assert!(n == 1 + 8 + 64);
    assert!(logged(0, 0) == 0x01);
    let j: usize = kani::any();
    kani::assume(j < 8);
    assert!(logged(0, 1 + j) == le64(la + lb, j));
    let k: usize = kani::any();
    kani::assume(k < 32);
    let (first, second) = if ia < ib { (&ha, &hb) } else { (&hb, &ha) };
    assert!(logged(0, 9 + k) == first[k]);
    assert!(logged(0, 41 + k) == second[k]);
    kani::cover!(ia > ib, "arguments in reverse index order");
    kani::cover!(true, "reached end");
}

/// tree (root) hash: BLAKE2b-256( 0x02 || ( root.hash || LE64(root.index) || LE64(root.length) )* )
fn tree_framing<const TWO: bool>() {
    model::reset();
    model::set_record(true);
    let (i0, i1, l0, l1): (u64, u64, u64, u64) = (kani::any(), kani::any(), kani::any(), kani::any());
    kani::assume(i0 < (1 << 40) && i1 < (1 << 40));
    let (h0, h1): ([u8; 32], [u8; 32]) = (kani::any(), kani::any());
    let mut roots = vec![Node::new(i0, h0.to_vec(), l0)];
    if TWO {
        roots.push(Node::new(i1, h1.to_vec(), l1));
    }
    let _h = Hash::tree(&roots);
    assert!(model::log_len() == 1);
    let (_, n) = model::log_entry(0);
    assert!(n == 1 + 48 * roots.len());
    assert!(logged(0, 0) == 0x02);
    let k: usize = kani::any();
    kani::assume(k < 32);
    let j: usize = kani::any();
    kani::assume(j < 8);
    assert!(logged(0, 1 + k) == h0[k]);
    assert!(logged(0, 33 + j) == le64(i0, j));
    assert!(logged(0, 41 + j) == le64(l0, j));
    if TWO {
        assert!(logged(0, 49 + k) == h1[k]);
        assert!(logged(0, 81 + j) == le64(i1, j));
        assert!(logged(0, 89 + j) == le64(l1, j));
    }
    kani::cover!(true, "reached end");
}
#[kani::proof]
#[kani::stub(std::fmt::format, stub_format)]
fn c05_tree_framing_1() {
    tree_framing::<false>();
}
#[kani::proof]
#[kani::stub(std::fmt::format, stub_format)]
fn c05_tree_framing_2() {
    tree_framing::<true>();
}

/// the tree namespace constant (BLAKE2b-256 of the "hypercore" namespace, index 0), as published by
/// the JavaScript implementation (lib/caps.js TREE)
const TREE_NS: [u8; 32] = [
    0x9F, 0xAC, 0x70, 0xB5, 0x0C, 0xA1, 0x4E, 0xFC, 0x4E, 0x91, 0xC8, 0x33, 0xB2, 0x04, 0xE7, 0x5B,
    0x8B, 0x5A, 0xAD, 0x8B, 0x58, 0x81, 0xBF, 0xC0, 0xAD, 0xB5, 0xEF, 0x38, 0xA3, 0x27, 0x5B, 0x9C,
];

/// signable: TREE || root-hash || LE64(length) || LE64(fork), 80 bytes
#[kani::proof]
#[kani::stub(std::fmt::format, stub_format)]
fn c05_signable_tree() {
    let hash: [u8; 32] = kani::any();
    let (length, fork): (u64, u64) = (kani::any(), kani::any());
    let s = signable_tree(&hash, length, fork);
    assert!(s.len() == 80);
    let k: usize = kani::any();
    kani::assume(k < 32);
    let j: usize = kani::any();
    kani::assume(j < 8);
    assert!(s[k] == TREE_NS[k]);
    assert!(s[32 + k] == hash[k]);
    assert!(s[64 + j] == le64(length, j));
    assert!(s[72 + j] == le64(fork, j));
    kani::cover!(true, "reached end");
}
