//! Harness root, compiled only under `cfg(kani)` inside the overlay copy of hypercore (lib.rs gets
//! one `mod verif;` line).  Child-module harnesses that need private items of a hypercore module
//! are attached to that module by the overlay (`c_*.rs`).
#![allow(
    dead_code,
    unreachable_pub,
    missing_docs,
    missing_debug_implementations,
    unused_imports,
    unsafe_code,
    future_incompatible,
    rust_2018_idioms,
    clippy::all
)]

pub mod ref_codec;
pub mod ref_tree;
pub mod util;

mod u_wire;
