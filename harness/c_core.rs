//! Child module of `hypercore::core` (attached by the overlay): sees `update_contiguous_length`
//! and `Hypercore`'s private fields.
#![allow(unused_imports, dead_code, future_incompatible, rust_2018_idioms, unsafe_code, missing_docs, missing_debug_implementations, unreachable_pub, clippy::all)]
use super::*;
use crate::bitfield::Bitfield;
use crate::common::{BitfieldUpdate, Store, StoreInfo};
use crate::oplog::Header;
use crate::verif::util::*;
use ed25519_dalek::SigningKey;
use futures::future::Either;

pub(crate) fn test_keypair() -> PartialKeypair {
    let sk = SigningKey::from_bytes(&[7u8; 32]);
    PartialKeypair { public: sk.verifying_key(), secret: Some(sk) }
}

/// first index i with bit i of w clear
fn first_missing(w: u16) -> u64 {
    (!w).trailing_zeros() as u64
}

/// C08-U3: one inductive step of the contiguous-length maintenance that `Hypercore::new` (replay),
/// `append_batch` and `verify_and_apply_proof` all perform: `bitfield.update(u);
/// update_contiguous_length(header, bitfield, u)`.
/// Pre-state: an arbitrary 16-block window of the bitfield (every one of the 2^15 patterns with block 15 missing) with
/// `contiguous_length` equal to its first missing index (the invariant).  One arbitrary update
/// inside the window.  Post: the invariant holds again.  One step covers histories of any length.
#[kani::proof]
#[kani::stub(std::fmt::format, stub_format)]
fn c08_contiguous_length_step() {
    let w: u16 = kani::any();
    kani::assume(w & (1 << 15) == 0); // block 15 missing: keeps the scan inside the window
    let data = (w as u32).to_le_bytes();
    let mut bitfield = match Bitfield::open(Some(StoreInfo::new_content(Store::Bitfield, 0, &data))) {
        Either::Right(b) => b,
        Either::Left(_) => unreachable!(),
    };
    let mut header = Header::new(test_keypair());
    header.hints.contiguous_length = first_missing(w);
    // sanity: the bitfield really holds the window
    let probe: u64 = kani::any();
    kani::assume(probe < 16);
    assert!(bitfield.get(probe) == ((w >> probe) & 1 == 1));

    let u = BitfieldUpdate { drop: kani::any(), start: kani::any(), length: kani::any() };
    kani::assume(u.length >= 1 && u.start < 15 && u.length <= 15 - u.start);
    bitfield.update(&u);
    update_contiguous_length(&mut header, &bitfield, &u);

    let mask: u16 = (((1u32 << u.length) - 1) << u.start) as u16;
    let w2 = if u.drop { w & !mask } else { w | mask };
    assert!(bitfield.get(probe) == ((w2 >> probe) & 1 == 1));
    assert!(header.hints.contiguous_length == first_missing(w2));
    kani::cover!(true, "reached end");
    std::mem::forget(header);
}
