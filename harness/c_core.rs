//! Child module of `hypercore::core` (attached by the overlay): sees `update_contiguous_length`
//! and `Hypercore`'s private fields.
#![allow(unused_imports, dead_code, future_incompatible, rust_2018_idioms, unsafe_code, missing_docs, missing_debug_implementations, unreachable_pub, clippy::all)]
use super::*;
use crate::bitfield::Bitfield;
use crate::common::{BitfieldUpdate, Store, StoreInfo};
use crate::oplog::Header;
use crate::verif::util::*;
use ed25519_dalek::SigningKey;
use futures::future::Either;

pub(crate) fn test_keypair() -> PartialKeypair {
    let sk = SigningKey::from_bytes(&[7u8; 32]);
    PartialKeypair { public: sk.verifying_key(), secret: Some(sk) }
}

/// first index i with bit i of w clear
fn first_missing(w: u16) -> u64 {
    (!w).trailing_zeros() as u64
}

static mut WINDOW: u16 = 0;

/// Stub for `Bitfield::get` in the contiguous-length harness: the bitfield is the 16-block window
/// held in `WINDOW` (blocks >= 16 missing).  That the real `get` after the real `update` equals
/// this function is what the c08_fixed_*/c08_dyn_* harnesses establish; here the subject is the
/// arithmetic of `update_contiguous_length`, which only observes the bitfield through `get`.
fn stub_bitfield_get(_b: &Bitfield, index: u64) -> bool {
    index < 16 && (unsafe { WINDOW } >> index) & 1 == 1
}

/// Stub for `Bitfield::update` (no-op): under Kani the post-update bitfield is `WINDOW`; natively
/// (concrete playback, where stubs are not applied) the real update and the real get run instead.
fn stub_bitfield_update(_b: &mut Bitfield, _u: &BitfieldUpdate) {}

/// C08-U3: one inductive step of the contiguous-length maintenance that `Hypercore::new` (replay),
/// `append_batch` and `verify_and_apply_proof` all perform after `bitfield.update(u)`:
/// `update_contiguous_length(header, bitfield, u)`.
/// Pre-state: an arbitrary 16-block window (all 2^15 patterns, block 15 missing) with
/// `contiguous_length` equal to its first missing index (the invariant).  One arbitrary update
/// inside the window.  Post: the invariant holds again.  One step covers histories of any length.
#[kani::proof]
#[kani::stub(std::fmt::format, stub_format)]
#[kani::stub(crate::bitfield::Bitfield::get, stub_bitfield_get)]
#[kani::stub(crate::bitfield::Bitfield::update, stub_bitfield_update)]
fn c08_contiguous_length_step() {
    let w: u16 = kani::any();
    kani::assume(w & (1 << 15) == 0);
    let data = (w as u32).to_le_bytes();
    let mut bitfield = match Bitfield::open(Some(StoreInfo::new_content(Store::Bitfield, 0, &data))) {
        Either::Right(b) => b,
        Either::Left(_) => unreachable!(),
    };
    let mut header = Header::new(test_keypair());
    header.hints.contiguous_length = first_missing(w);
    let u = BitfieldUpdate { drop: kani::any(), start: kani::any(), length: kani::any() };
    kani::assume(u.length >= 1 && u.start < 15 && u.length <= 15 - u.start);
    let mask: u16 = (((1u32 << u.length) - 1) << u.start) as u16;
    let w2 = if u.drop { w & !mask } else { w | mask };
    unsafe { WINDOW = w2 }; // the bitfield after `bitfield.update(&u)`
    bitfield.update(&u); // stubbed out under Kani (see above), real in native playback
    update_contiguous_length(&mut header, &bitfield, &u);
    assert!(header.hints.contiguous_length == first_missing(w2));
    kani::cover!(true, "reached end");
    std::mem::forget(header);
}
