//! Shared helpers: Kani stubs, symbolic value builders.
use crate::Node;

/// Stub for `std::fmt::format`: error messages are never the subject of a property.
pub fn stub_format(_args: std::fmt::Arguments<'_>) -> String {
    String::new()
}

/// Stub for `String::from_utf8`: the string fields hypercore decodes (`user_data`, `reorgs`) are
/// always written empty by this crate; UTF-8 validation is not the subject.
pub fn stub_from_utf8(v: Vec<u8>) -> Result<String, std::string::FromUtf8Error> {
    Ok(unsafe { String::from_utf8_unchecked(v) })
}

/// A fully symbolic node (index, length, 32 hash bytes).
pub fn any_node() -> Node {
    let hash: [u8; 32] = kani::any();
    Node::new(kani::any(), hash.to_vec(), kani::any())
}

/// A symbolic node whose hash is not all-zero (not "blank").
pub fn any_nonblank_node() -> Node {
    let n = any_node();
    kani::assume(!n.blank);
    n
}

/// 0..=2 symbolic nodes.
pub fn any_nodes_upto2() -> Vec<Node> {
    let cnt: u8 = kani::any();
    kani::assume(cnt <= 2);
    let mut v = Vec::with_capacity(2);
    if cnt >= 1 {
        v.push(any_node());
    }
    if cnt >= 2 {
        v.push(any_node());
    }
    v
}

/// 0..=4 symbolic bytes.
pub fn any_bytes_upto4() -> Vec<u8> {
    let cnt: u8 = kani::any();
    kani::assume(cnt <= 4);
    let src: [u8; 4] = kani::any();
    let mut v = Vec::with_capacity(4);
    let mut i = 0;
    while i < 4 {
        if (i as u8) < cnt {
            v.push(src[i]);
        }
        i += 1;
    }
    v
}

pub fn hash32(n: &Node) -> [u8; 32] {
    let mut h = [0u8; 32];
    let mut i = 0;
    while i < 32 {
        h[i] = n.hash[i];
        i += 1;
    }
    h
}

pub fn node_eq(a: &Node, b: &Node) -> bool {
    a.index == b.index && a.length == b.length && a.hash.len() == 32 && b.hash.len() == 32 && {
        let mut ok = true;
        let mut i = 0;
        while i < 32 {
            if a.hash[i] != b.hash[i] {
                ok = false;
            }
            i += 1;
        }
        ok
    }
}

pub fn nodes_eq(a: &[Node], b: &[Node]) -> bool {
    if a.len() != b.len() {
        return false;
    }
    let mut ok = true;
    let mut i = 0;
    while i < a.len() {
        if !node_eq(&a[i], &b[i]) {
            ok = false;
        }
        i += 1;
    }
    ok
}

/// Stub for `u32::pow`: hypercore only calls it as `2u32.pow(power)` with `power < 32`
/// (`FixedBitfield::set_range`); on that domain `1 << exp` is the same function, and the stub
/// asserts the domain, so a call outside it is reported instead of mis-modelled.  Removes the
/// symbolic-by-symbolic multiplications of square-and-multiply, which stall the SAT solver.
pub fn stub_pow2(base: u32, exp: u32) -> u32 {
    assert!(base == 2 && exp < 32);
    1u32 << exp
}
