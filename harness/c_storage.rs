//! Child module of `hypercore::storage` (attached by the overlay): can build a `Storage` from
//! hand-written backends.  C10: a failing storage operation surfaces as Err and stops the batch.
#![allow(unused_imports, dead_code, future_incompatible, rust_2018_idioms, unsafe_code, missing_docs, missing_debug_implementations, unreachable_pub, clippy::all)]
use super::*;
use crate::common::{Store, StoreInfo, StoreInfoInstruction};
use crate::verif::util::*;
use random_access_storage::{RandomAccess, RandomAccessError};
use std::cell::RefCell;
use std::future::Future;
use std::pin::Pin;
use std::rc::Rc;
use std::task::{Context, Poll, RawWaker, RawWakerVTable, Waker};

/// Journal shared by the four backends: how many operations were issued, which one fails.
#[derive(Debug, Default)]
pub(crate) struct Journal {
    pub issued: u32,
    pub fail_at: u32, // the operation with this ordinal (0-based) returns an I/O error
    pub writes: u32,
    pub dels: u32,
    pub truncates: u32,
    pub reads: u32,
    pub last_store: u8,
}

#[derive(Debug, Clone)]
pub(crate) struct Faulty {
    pub id: u8,
    pub j: Rc<RefCell<Journal>>,
}
unsafe impl Send for Faulty {}
unsafe impl Sync for Faulty {}

impl Faulty {
    fn step(&self) -> Result<(), RandomAccessError> {
        let mut j = self.j.borrow_mut();
        let n = j.issued;
        j.issued += 1;
        j.last_store = self.id;
        if n == j.fail_at {
            Err(RandomAccessError::IO { return_code: None, context: None, source: std::io::Error::from(std::io::ErrorKind::Other) })
        } else {
            Ok(())
        }
    }
}

type R<'a, T> = Pin<Box<dyn Future<Output = Result<T, RandomAccessError>> + Send + 'a>>;
impl RandomAccess for Faulty {
    fn write<'a, 'b, 'c>(&'a mut self, _offset: u64, _data: &'b [u8]) -> R<'c, ()> where 'a: 'c, 'b: 'c, Self: 'c {
        let r = self.step();
        self.j.borrow_mut().writes += 1;
        Box::pin(std::future::ready(r))
    }
    fn read<'a, 'c>(&'a mut self, _offset: u64, length: u64) -> R<'c, Vec<u8>> where 'a: 'c, Self: 'c {
        let r = self.step().map(|_| vec![0u8; 8]);
        let _ = length;
        self.j.borrow_mut().reads += 1;
        Box::pin(std::future::ready(r))
    }
    fn del<'a, 'c>(&'a mut self, _offset: u64, _length: u64) -> R<'c, ()> where 'a: 'c, Self: 'c {
        let r = self.step();
        self.j.borrow_mut().dels += 1;
        Box::pin(std::future::ready(r))
    }
    fn truncate<'a, 'c>(&'a mut self, _length: u64) -> R<'c, ()> where 'a: 'c, Self: 'c {
        let r = self.step();
        self.j.borrow_mut().truncates += 1;
        Box::pin(std::future::ready(r))
    }
    fn len<'a, 'c>(&'a mut self) -> R<'c, u64> where 'a: 'c, Self: 'c {
        let r = self.step().map(|_| 8u64);
        Box::pin(std::future::ready(r))
    }
    fn is_empty<'a, 'c>(&'a mut self) -> R<'c, bool> where 'a: 'c, Self: 'c {
        Box::pin(std::future::ready(Ok(false)))
    }
    fn sync_all<'a, 'c>(&'a mut self) -> R<'c, ()> where 'a: 'c, Self: 'c {
        Box::pin(std::future::ready(Ok(())))
    }
}

fn noop_waker() -> Waker {
    fn clone(_: *const ()) -> RawWaker {
        RawWaker::new(std::ptr::null(), &VT)
    }
    fn noop(_: *const ()) {}
    static VT: RawWakerVTable = RawWakerVTable::new(clone, noop, noop, noop);
    unsafe { Waker::from_raw(RawWaker::new(std::ptr::null(), &VT)) }
}

/// Poll a future that never yields (the backends return ready futures): exactly one poll.
pub(crate) fn run<F: Future>(f: F) -> F::Output {
    let w = noop_waker();
    let mut cx = Context::from_waker(&w);
    let mut f = Box::pin(f);
    match f.as_mut().poll(&mut cx) {
        Poll::Ready(v) => v,
        Poll::Pending => panic!("backend future yielded"),
    }
}

pub(crate) fn faulty_storage(fail_at: u32) -> (Storage, Rc<RefCell<Journal>>) {
    let j = Rc::new(RefCell::new(Journal { fail_at, ..Default::default() }));
    let s = Storage {
        tree: Box::new(Faulty { id: 0, j: j.clone() }),
        data: Box::new(Faulty { id: 1, j: j.clone() }),
        bitfield: Box::new(Faulty { id: 2, j: j.clone() }),
        oplog: Box::new(Faulty { id: 3, j: j.clone() }),
    };
    (s, j)
}

/// C10-U1: flush_infos over a batch of three operations (write to oplog, delete in data, truncate
/// of the oplog) with the k-th storage operation failing (k symbolic, possibly none):
/// the call returns Err iff an operation failed, issues no operation after the failing one, and
/// issues all three otherwise.
#[kani::proof]
#[kani::stub(std::fmt::format, stub_format)]
fn c10_flush_infos_fault() {
    let k: u32 = kani::any();
    kani::assume(k <= 3);
    let (mut storage, j) = faulty_storage(k);
    let infos = [
        StoreInfo::new_content(Store::Oplog, 8192, &[1, 2, 3]),
        StoreInfo::new_delete(Store::Data, 0, 4),
        StoreInfo::new_truncate(Store::Oplog, 8192),
    ];
    let r = run(storage.flush_infos(&infos));
    let jj = j.borrow();
    if k < 3 {
        assert!(r.is_err());
        assert!(jj.issued == k + 1); // nothing after the failing operation
    } else {
        assert!(r.is_ok());
        assert!(jj.issued == 3 && jj.writes == 1 && jj.dels == 1 && jj.truncates == 1);
    }
    kani::cover!(k == 1, "second operation fails");
    kani::cover!(true, "reached end");
    std::mem::forget(r);
}

/// C10-U1: read_infos_to_vec with a failing read / length query: Err, and nothing after it.
#[kani::proof]
#[kani::stub(std::fmt::format, stub_format)]
fn c10_read_infos_fault() {
    let k: u32 = kani::any();
    kani::assume(k <= 2);
    let (mut storage, j) = faulty_storage(k);
    let instr = [
        StoreInfoInstruction::new_content(Store::Tree, 0, 8),
        StoreInfoInstruction::new_content(Store::Tree, 40, 8),
    ];
    let r = run(storage.read_infos_to_vec(&instr));
    let jj = j.borrow();
    if k < 2 {
        assert!(r.is_err());
        assert!(jj.issued == k + 1);
    } else {
        assert!(r.is_ok());
        assert!(jj.issued == 2 && jj.reads == 2);
    }
    kani::cover!(true, "reached end");
    std::mem::forget(r);
}
