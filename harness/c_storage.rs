//! Child module of `hypercore::storage` in overlay variant "st": the REAL `storage/mod.rs`
//! (mechanically de-asynced, its three futures-building constructors cut) compiled against the sync
//! `RandomAccess` trait model.  C10: a failing storage operation surfaces as `Err` and the batch
//! stops issuing operations; the instruction interpreter maps every `StoreInfo` /
//! `StoreInfoInstruction` to exactly the backend call the sans-IO components asked for.
#![allow(unused_imports, dead_code, future_incompatible, rust_2018_idioms, unsafe_code, static_mut_refs, missing_docs, missing_debug_implementations, unreachable_pub, clippy::all)]
use super::*;
use crate::common::{Store, StoreInfo, StoreInfoInstruction};
use crate::verif::util::*;
use random_access_storage::{RandomAccess, RandomAccessError};

pub(crate) const K_WRITE: u8 = 1;
pub(crate) const K_READ: u8 = 2;
pub(crate) const K_DEL: u8 = 3;
pub(crate) const K_TRUNC: u8 = 4;
pub(crate) const K_LEN: u8 = 5;

#[derive(Clone, Copy, PartialEq, Eq, Debug)]
pub(crate) struct Rec {
    pub store: u8,
    pub kind: u8,
    pub a: u64,
    pub b: u64,
}
const NO: Rec = Rec { store: 9, kind: 0, a: 0, b: 0 };

/// journal shared by the four backends
static mut ISSUED: u32 = 0;
static mut FAIL_AT: u32 = u32::MAX; // the operation with this ordinal fails ...
static mut FAIL_OOB: bool = false; // ... with OutOfBounds instead of an I/O error
static mut LOG: [Rec; 8] = [NO; 8];
static mut FILE_LEN: u64 = 0;

fn issued() -> u32 {
    unsafe { ISSUED }
}
fn log(i: usize) -> Rec {
    unsafe { LOG[i] }
}

/// Recording backend: every call is journaled (store, kind, arguments); the `FAIL_AT`-th fails.
#[derive(Debug)]
pub(crate) struct Backend {
    pub id: u8,
}

impl Backend {
    fn step(&self, kind: u8, a: u64, b: u64) -> Result<(), RandomAccessError> {
        unsafe {
            let n = ISSUED;
            assert!(n < 8, "journal capacity (stated bound)");
            LOG[n as usize] = Rec { store: self.id, kind, a, b };
            ISSUED = n + 1;
            if n == FAIL_AT {
                if FAIL_OOB {
                    Err(RandomAccessError::OutOfBounds { offset: a, end: None, length: FILE_LEN })
                } else {
                    Err(RandomAccessError::IO { return_code: None, context: None, source: std::io::Error::from(std::io::ErrorKind::Other) })
                }
            } else {
                Ok(())
            }
        }
    }
}

impl RandomAccess for Backend {
    fn write(&mut self, offset: u64, data: &[u8]) -> Result<(), RandomAccessError> {
        self.step(K_WRITE, offset, data.len() as u64)
    }
    fn read(&mut self, offset: u64, length: u64) -> Result<Vec<u8>, RandomAccessError> {
        self.step(K_READ, offset, length)?;
        // contents are not the subject here (and a symbolic-size allocation is out of reach): always
        // 8 bytes tagged with the store id; the requested length is in the journal
        let _ = length;
        Ok(vec![self.id; 8])
    }
    fn del(&mut self, offset: u64, length: u64) -> Result<(), RandomAccessError> {
        self.step(K_DEL, offset, length)
    }
    fn truncate(&mut self, length: u64) -> Result<(), RandomAccessError> {
        self.step(K_TRUNC, length, 0)
    }
    fn len(&mut self) -> Result<u64, RandomAccessError> {
        self.step(K_LEN, 0, 0)?;
        Ok(unsafe { FILE_LEN })
    }
    fn is_empty(&mut self) -> Result<bool, RandomAccessError> {
        Ok(unsafe { FILE_LEN } == 0)
    }
    fn sync_all(&mut self) -> Result<(), RandomAccessError> {
        Ok(())
    }
}

fn storage() -> Storage {
    unsafe {
        ISSUED = 0;
    }
    Storage {
        tree: Box::new(Backend { id: 0 }),
        data: Box::new(Backend { id: 1 }),
        bitfield: Box::new(Backend { id: 2 }),
        oplog: Box::new(Backend { id: 3 }),
    }
}

/// C10-U1a: `flush_infos` on a batch that touches three stores with all three kinds of operation:
/// write (Content), delete (Content + miss), truncate (Size + miss), then a write to another store.
/// For EVERY position of the failing operation (or none) and every value of the offsets/lengths:
/// the call returns Err iff an operation failed, the operations issued are exactly the prefix up to
/// and including the failing one (nothing is issued after a failure), and each issued operation
/// is the backend call the `StoreInfo` asked for (store, kind, offset, length).
#[kani::proof]
#[kani::stub(std::fmt::format, stub_format)]
fn c10_flush_infos_fault() {
    let fail_at: u32 = kani::any();
    kani::assume(fail_at <= 4);
    let oob: bool = kani::any();
    unsafe {
        FAIL_AT = fail_at;
        FAIL_OOB = oob;
    }
    let (i0, i1, l1, i2, i3): (u64, u64, u64, u64, u64) = (kani::any(), kani::any(), kani::any(), kani::any(), kani::any());
    let infos = [
        StoreInfo::new_content(Store::Oplog, i0, &[1u8, 2, 3]),
        StoreInfo::new_delete(Store::Data, i1, l1),
        StoreInfo::new_truncate(Store::Oplog, i2),
        StoreInfo::new_content(Store::Tree, i3, &[9u8; 5]),
    ];
    let mut st = storage();
    let r = st.flush_infos(&infos);
    assert!(r.is_err() == (fail_at < 4));
    let n = issued();
    assert!(n == if fail_at < 4 { fail_at + 1 } else { 4 });
    if n >= 1 {
        assert!(log(0) == Rec { store: 3, kind: K_WRITE, a: i0, b: 3 });
    }
    if n >= 2 {
        assert!(log(1) == Rec { store: 1, kind: K_DEL, a: i1, b: l1 });
    }
    if n >= 3 {
        assert!(log(2) == Rec { store: 3, kind: K_TRUNC, a: i2, b: 0 });
    }
    if n >= 4 {
        assert!(log(3) == Rec { store: 0, kind: K_WRITE, a: i3, b: 5 });
    }
    kani::cover!(r.is_err(), "a failure is reachable");
    kani::cover!(true, "reached end");
    std::mem::forget(r);
    std::mem::forget(st);
    std::mem::forget(infos);
}

/// C10-U1b: `flush_info` (single) and an empty batch.
#[kani::proof]
#[kani::stub(std::fmt::format, stub_format)]
fn c10_flush_info_single() {
    let fail: bool = kani::any();
    unsafe {
        FAIL_AT = if fail { 0 } else { u32::MAX };
        FAIL_OOB = kani::any();
    }
    let i0: u64 = kani::any();
    let mut st = storage();
    let r0 = st.flush_infos(&[]);
    assert!(r0.is_ok() && issued() == 0);
    let r = st.flush_info(StoreInfo::new_content(Store::Bitfield, i0, &[7u8; 4]));
    assert!(r.is_err() == fail);
    assert!(issued() == 1 && log(0) == Rec { store: 2, kind: K_WRITE, a: i0, b: 4 });
    kani::cover!(true, "reached end");
    std::mem::forget(r);
    std::mem::forget(st);
}

/// C10-U1c: `read_infos_to_vec` on [content with explicit length (tree), size (bitfield),
/// whole-file content (oplog: len then read)]: 4 backend operations.  For every position of the
/// failing operation (I/O error): Err iff one failed, nothing issued after it, each operation is
/// the one the instruction asked for; on success the infos carry the store, index and what was read.
#[kani::proof]
#[kani::stub(std::fmt::format, stub_format)]
fn c10_read_infos_fault() {
    let fail_at: u32 = kani::any();
    kani::assume(fail_at <= 4);
    let flen: u64 = kani::any();
    kani::assume(flen < (1 << 40));
    let (i0, i1): (u64, u64) = (kani::any(), kani::any());
    kani::assume(i1 <= flen);
    unsafe {
        FAIL_AT = fail_at;
        FAIL_OOB = false;
        FILE_LEN = flen;
    }
    let ins = [
        StoreInfoInstruction::new_content(Store::Tree, i0, 8),
        StoreInfoInstruction::new_size(Store::Bitfield, i1),
        StoreInfoInstruction::new_all_content(Store::Oplog),
    ];
    let mut st = storage();
    let r = st.read_infos_to_vec(&ins);
    assert!(r.is_err() == (fail_at < 4));
    let n = issued();
    assert!(n == if fail_at < 4 { fail_at + 1 } else { 4 });
    if n >= 1 {
        assert!(log(0) == Rec { store: 0, kind: K_READ, a: i0, b: 8 });
    }
    if n >= 2 {
        assert!(log(1) == Rec { store: 2, kind: K_LEN, a: 0, b: 0 });
    }
    if n >= 3 {
        assert!(log(2) == Rec { store: 3, kind: K_LEN, a: 0, b: 0 });
    }
    if n >= 4 {
        assert!(log(3) == Rec { store: 3, kind: K_READ, a: 0, b: flen });
    }
    if let Ok(v) = &r {
        assert!(v.len() == 3);
        assert!(v[0].store == Store::Tree && v[0].index == i0 && !v[0].miss && v[0].data.as_ref().unwrap().len() == 8);
        assert!(v[1].store == Store::Bitfield && v[1].index == i1 && v[1].length == Some(flen - i1));
        assert!(v[2].store == Store::Oplog && v[2].index == 0 && !v[2].miss);
    }
    kani::cover!(r.is_ok(), "success is reachable");
    kani::cover!(true, "reached end");
    std::mem::forget(r);
    std::mem::forget(st);
}

/// C10-U1d: an out-of-bounds read is a *miss* exactly when the instruction allows it and an error
/// otherwise (never success with made-up data); `read_info` returns the single info.
#[kani::proof]
#[kani::stub(std::fmt::format, stub_format)]
fn c10_read_out_of_bounds() {
    let allow: bool = kani::any();
    let i0: u64 = kani::any();
    unsafe {
        FAIL_AT = 0;
        FAIL_OOB = true;
        FILE_LEN = 0;
    }
    let ins = if allow { StoreInfoInstruction::new_content_allow_miss(Store::Tree, i0, 40) } else { StoreInfoInstruction::new_content(Store::Tree, i0, 40) };
    let mut st = storage();
    let r = st.read_info(ins);
    assert!(r.is_ok() == allow);
    if let Ok(info) = &r {
        assert!(info.miss && info.index == i0 && info.store == Store::Tree);
    }
    assert!(issued() == 1 && log(0) == Rec { store: 0, kind: K_READ, a: i0, b: 40 });
    kani::cover!(true, "reached end");
    std::mem::forget(r);
    std::mem::forget(st);
}
