//! Child module of `hypercore::tree::merkle_tree` (attached by the overlay): sees MerkleTree's
//! private fields and the free functions verify_tree / verify_upgrade / NodeQueue / nodes_to_root.
//! C09 (no request or proof can panic), C03 (honest proofs accepted), C04 (altered proofs refused),
//! C05 (tree shape / signable).
#![allow(unused_imports, dead_code, future_incompatible, rust_2018_idioms, unsafe_code, missing_docs, missing_debug_implementations, unreachable_pub, clippy::all)]
use super::*;
use crate::common::{Proof, ValuelessProof};
use crate::verif::util::*;
use crate::{DataBlock, DataHash, DataSeek, DataUpgrade, Node, RequestBlock, RequestSeek, RequestUpgrade};
use ed25519_dalek::SigningKey;

pub(crate) fn signing_key() -> SigningKey {
    SigningKey::from_bytes(&[7u8; 32])
}

pub(crate) fn empty_tree() -> MerkleTree {
    MerkleTree {
        roots: vec![],
        length: 0,
        byte_length: 0,
        fork: 0,
        signature: None,
        unflushed: IntMap::new(),
        truncated: false,
        truncate_to: 0,
        #[cfg(feature = "cache")]
        node_cache: None,
    }
}

/// A writer tree of `n` blocks built by the real code path of `Hypercore::append`:
/// changeset().append(block) / hash_and_sign / commit, one block per call.  Block i is i+1 bytes
/// of value 0x61+i.  All nodes stay in `unflushed`, so no storage reads are ever needed.
pub(crate) fn writer_tree(n: usize) -> MerkleTree {
    let mut t = empty_tree();
    let sk = signing_key();
    let mut i = 0;
    while i < n {
        let mut cs = t.changeset();
        let data = block_data(i);
        cs.append(&data);
        cs.hash_and_sign(&sk);
        t.commit(cs).unwrap();
        i += 1;
    }
    t
}

pub(crate) fn block_data(i: usize) -> Vec<u8> {
    let mut v = Vec::with_capacity(4);
    let mut k = 0;
    while k <= i && k < 4 {
        v.push(0x61 + i as u8);
        k += 1;
    }
    v
}

/// A 3-block tree written down directly (no hashing/signing): leaves 0,2,4 (1,2,3 bytes), parent 1;
/// roots [1, 4].  Hash values are arbitrary non-zero bytes: panic-freedom does not depend on them.
pub(crate) fn literal_tree3() -> MerkleTree {
    let mut t = empty_tree();
    let n0 = Node::new(0, vec![0x10; 32], 1);
    let n2 = Node::new(2, vec![0x12; 32], 2);
    let n1 = Node::new(1, vec![0x11; 32], 3);
    let n4 = Node::new(4, vec![0x14; 32], 3);
    t.unflushed.insert(0, n0);
    t.unflushed.insert(2, n2);
    t.unflushed.insert(1, n1.clone());
    t.unflushed.insert(4, n4.clone());
    t.roots = vec![n1, n4];
    t.length = 3;
    t.byte_length = 6;
    t.signature = Some(ed25519_dalek::Signature::from_bytes(&[9u8; 64]));
    t
}

/// arbitrary node with index and length below 2^40 (the property's bound; also keeps clear of D8)
fn node40() -> Node {
    let index: u64 = kani::any();
    let length: u64 = kani::any();
    kani::assume(index < (1u64 << 40) && length < (1u64 << 40));
    let hash: [u8; 32] = kani::any();
    Node::new(index, hash.to_vec(), length)
}
fn nodes40_upto2() -> Vec<Node> {
    let cnt: u8 = kani::any();
    kani::assume(cnt <= 2);
    let mut v = Vec::with_capacity(2);
    if cnt >= 1 {
        v.push(node40());
    }
    if cnt >= 2 {
        v.push(node40());
    }
    v
}

fn lt40(x: u64) -> bool {
    x < (1u64 << 40)
}

// ------------------------------------------------------------------------------------------ C09

fn request_on<const N: usize>(block: bool, hash: bool, seek: bool, upgrade: bool) {
    let mut t = if N == 3 { literal_tree3() } else { empty_tree() };
    let b = RequestBlock { index: kani::any(), nodes: kani::any() };
    let h = RequestBlock { index: kani::any(), nodes: kani::any() };
    let s = RequestSeek { bytes: kani::any() };
    let u = RequestUpgrade { start: kani::any(), length: kani::any() };
    kani::assume(lt40(b.index) && lt40(b.nodes) && lt40(h.index) && lt40(h.nodes) && lt40(s.bytes) && lt40(u.start) && lt40(u.length));
    let r = t.create_valueless_proof(
        if block { Some(&b) } else { None },
        if hash { Some(&h) } else { None },
        if seek { Some(&s) } else { None },
        if upgrade { Some(&u) } else { None },
        None,
    );
    // a value or an error -- never a panic (Kani's checks), and the tree is untouched
    assert!(t.length == N as u64);
    kani::cover!(r.is_ok(), "some request is served");
    kani::cover!(r.is_err(), "some request is refused");
    kani::cover!(true, "reached end");
    std::mem::forget(r);
    std::mem::forget(t);
}

macro_rules! c09_req {
    ($name:ident, $n:expr, $b:expr, $h:expr, $s:expr, $u:expr) => {
        #[kani::proof]
        #[kani::stub(std::fmt::format, stub_format)]
        fn $name() {
            request_on::<$n>($b, $h, $s, $u);
        }
    };
}
// Whole-request harnesses: kept for the thorough tier; in this sandbox they exhaust 9 GB
// (IntMap lookups with symbolic node indices along every walk), so they are reported inconclusive.
c09_req!(c09_req_block_n3, 3, true, false, false, false);
c09_req!(c09_req_upgrade_n3, 3, false, false, false, true);
c09_req!(c09_req_block_upgrade_n3, 3, true, false, false, true);

/// nodes_to_root: the walk that turns a peer-supplied node count into a sub-tree root.
/// Every index / count / head below 2^40: returns Ok or Err, no overflow, terminates.
#[kani::proof]
#[kani::stub(std::fmt::format, stub_format)]
fn c09_nodes_to_root() {
    let index: u64 = kani::any();
    let nodes: u64 = kani::any();
    let head: u64 = kani::any();
    kani::assume(lt40(index) && lt40(nodes) && lt40(head) && head % 2 == 0);
    let r = nodes_to_root(index, nodes, head);
    kani::cover!(r.is_ok(), "accepted");
    kani::cover!(r.is_err(), "refused");
    kani::cover!(true, "reached end");
    std::mem::forget(r);
}

/// normalize_indexed: block / hash request normalisation (right_span of a peer-supplied index).
#[kani::proof]
#[kani::stub(std::fmt::format, stub_format)]
fn c09_normalize_indexed() {
    let b = RequestBlock { index: kani::any(), nodes: kani::any() };
    kani::assume(lt40(b.index) && lt40(b.nodes));
    let as_block: bool = kani::any();
    let r = if as_block { normalize_indexed(Some(&b), None) } else { normalize_indexed(None, Some(&b)) };
    let r = r.unwrap();
    assert!(r.value == as_block);
    if as_block {
        assert!(r.index == 2 * b.index && r.last_index == b.index);
    } else {
        assert!(r.index == b.index && r.last_index >= r.index / 2);
    }
    kani::cover!(true, "reached end");
}

/// NodeQueue::shift with an arbitrary expected index on a queue of 0..2 arbitrary nodes (+extra).
#[kani::proof]
#[kani::stub(std::fmt::format, stub_format)]
fn c09_node_queue_shift() {
    let nodes = nodes40_upto2();
    let has_extra: bool = kani::any();
    let extra = if has_extra { Some(node40()) } else { None };
    let mut q = NodeQueue::new(nodes, extra);
    let l0 = q.length;
    let r1 = q.shift(kani::any());
    let r2 = q.shift(kani::any());
    let r3 = q.shift(kani::any());
    let r4 = q.shift(kani::any());
    let taken = r1.is_ok() as usize + r2.is_ok() as usize + r3.is_ok() as usize + r4.is_ok() as usize;
    assert!(q.length + taken == l0);
    assert!(taken <= l0);
    kani::cover!(taken == 3, "queue drained");
    kani::cover!(true, "reached end");
    std::mem::forget((r1, r2, r3, r4));
}

/// verify_upgrade on a replica changeset (empty tree) with a structurally arbitrary upgrade:
/// start/length below 2^40, 0..2 arbitrary nodes, 0..1 additional node, a 64-byte signature.
/// Must return Ok/Err; in particular a zero-length upgrade to an empty replica must not index the
/// empty root list.
#[kani::proof]
#[kani::stub(std::fmt::format, stub_format)]
fn c09_verify_upgrade_empty_replica() {
    let t = empty_tree();
    let mut cs = t.changeset();
    let sig: [u8; 64] = kani::any();
    let add_one: bool = kani::any();
    let upgrade = DataUpgrade {
        start: kani::any(),
        length: kani::any(),
        nodes: nodes40_upto2(),
        additional_nodes: if add_one { vec![node40()] } else { vec![] },
        signature: sig.to_vec(),
    };
    kani::assume(lt40(upgrade.start) && lt40(upgrade.length));
    let pk = signing_key().verifying_key();
    let r = verify_upgrade(kani::any(), &upgrade, None, &pk, &mut cs);
    kani::cover!(r.is_err(), "refused");
    kani::cover!(true, "reached end");
    std::mem::forget(r);
    std::mem::forget(cs);
}

/// verify_tree with a structurally arbitrary block / hash / seek section.
#[kani::proof]
#[kani::stub(std::fmt::format, stub_format)]
fn c09_verify_tree_arbitrary() {
    let t = empty_tree();
    let mut cs = t.changeset();
    let which: u8 = kani::any();
    let idx: u64 = kani::any();
    kani::assume(lt40(idx));
    let block = DataBlock { index: idx, value: any_bytes_upto4(), nodes: nodes40_upto2() };
    let hash = DataHash { index: idx, nodes: nodes40_upto2() };
    let seek = DataSeek { bytes: kani::any(), nodes: nodes40_upto2() };
    let r = match which % 4 {
        0 => verify_tree(Some(&block), None, None, &mut cs),
        1 => verify_tree(None, Some(&hash), None, &mut cs),
        2 => verify_tree(None, None, Some(&seek), &mut cs),
        _ => verify_tree(Some(&block), None, Some(&seek), &mut cs),
    };
    kani::cover!(r.is_ok(), "accepted");
    kani::cover!(r.is_err(), "refused");
    kani::cover!(true, "reached end");
    std::mem::forget(r);
    std::mem::forget(cs);
}

/// verify_upgrade with an upgrade that carries no nodes (the cheapest structurally arbitrary
/// upgrade): start/length below 2^40 on an empty replica.  Reaches the zero-length case.
#[kani::proof]
#[kani::stub(std::fmt::format, stub_format)]
fn c09_verify_upgrade_no_nodes() {
    let t = empty_tree();
    let mut cs = t.changeset();
    let sig: [u8; 64] = kani::any();
    let upgrade = DataUpgrade { start: kani::any(), length: kani::any(), nodes: vec![], additional_nodes: vec![], signature: sig.to_vec() };
    kani::assume(lt40(upgrade.start) && lt40(upgrade.length));
    let pk = signing_key().verifying_key();
    let r = verify_upgrade(0, &upgrade, None, &pk, &mut cs);
    kani::cover!(r.is_err(), "refused");
    kani::cover!(true, "reached end");
    std::mem::forget(r);
    std::mem::forget(cs);
}

/// create_valueless_proof on the 3-block tree for a block request combined with an upgrade whose
/// target may lie below the requested block (small symbolic ranges: block 0..2, upgrade to 1..3).
#[kani::proof]
#[kani::stub(std::fmt::format, stub_format)]
fn c09_req_block_vs_upgrade_target() {
    let mut t = literal_tree3();
    let bi: u8 = kani::any();
    let ul: u8 = kani::any();
    kani::assume(bi < 3 && ul >= 1 && ul <= 3);
    let b = RequestBlock { index: bi as u64, nodes: 0 };
    let u = RequestUpgrade { start: 0, length: ul as u64 };
    let r = t.create_valueless_proof(Some(&b), None, None, Some(&u), None);
    kani::cover!(r.is_ok(), "served");
    kani::cover!(true, "reached end");
    std::mem::forget(r);
    std::mem::forget(t);
}
