//! Child module of `hypercore::tree::merkle_tree` (attached by the overlay): sees MerkleTree's
//! private fields and the free functions verify_tree / verify_upgrade / NodeQueue / nodes_to_root.
//! C09 (no request or proof can panic), C03 (honest proofs accepted), C04 (altered proofs refused),
//! C05 (tree shape / signable).
#![allow(unused_imports, dead_code, future_incompatible, rust_2018_idioms, unsafe_code, missing_docs, missing_debug_implementations, unreachable_pub, clippy::all)]
use super::*;
use crate::common::{Proof, ValuelessProof};
use crate::verif::util::*;
use crate::{DataBlock, DataHash, DataSeek, DataUpgrade, Node, RequestBlock, RequestSeek, RequestUpgrade};
use ed25519_dalek::SigningKey;
use futures::future::Either;

pub(crate) fn signing_key() -> SigningKey {
    SigningKey::from_bytes(&[7u8; 32])
}

pub(crate) fn empty_tree() -> MerkleTree {
    MerkleTree {
        roots: vec![],
        length: 0,
        byte_length: 0,
        fork: 0,
        signature: None,
        unflushed: IntMap::new(),
        truncated: false,
        truncate_to: 0,
        #[cfg(feature = "cache")]
        node_cache: None,
    }
}

/// A writer tree of `n` blocks built by the real code path of `Hypercore::append`:
/// changeset().append(block) / hash_and_sign / commit, one block per call.  Block i is i+1 bytes
/// of value 0x61+i.  All nodes stay in `unflushed`, so no storage reads are ever needed.
pub(crate) fn writer_tree(n: usize) -> MerkleTree {
    let mut t = empty_tree();
    let sk = signing_key();
    let mut i = 0;
    while i < n {
        let mut cs = t.changeset();
        let data = block_data(i);
        cs.append(&data);
        cs.hash_and_sign(&sk);
        t.commit(cs).unwrap();
        i += 1;
    }
    t
}

pub(crate) fn block_data(i: usize) -> Vec<u8> {
    let mut v = Vec::with_capacity(4);
    let mut k = 0;
    while k <= i && k < 4 {
        v.push(0x61 + i as u8);
        k += 1;
    }
    v
}

/// A 3-block tree written down directly (no hashing/signing): leaves 0,2,4 (1,2,3 bytes), parent 1;
/// roots [1, 4].  Hash values are arbitrary non-zero bytes: panic-freedom does not depend on them.
pub(crate) fn literal_tree3() -> MerkleTree {
    let mut t = empty_tree();
    let n0 = Node::new(0, vec![0x10; 32], 1);
    let n2 = Node::new(2, vec![0x12; 32], 2);
    let n1 = Node::new(1, vec![0x11; 32], 3);
    let n4 = Node::new(4, vec![0x14; 32], 3);
    t.unflushed.insert(0, n0);
    t.unflushed.insert(2, n2);
    t.unflushed.insert(1, n1.clone());
    t.unflushed.insert(4, n4.clone());
    t.roots = vec![n1, n4];
    t.length = 3;
    t.byte_length = 6;
    t.signature = Some(ed25519_dalek::Signature::from_bytes(&[9u8; 64]));
    t
}

/// arbitrary node with index and length below 2^40 (the property's bound; also keeps clear of D8)
fn node40() -> Node {
    let index: u64 = kani::any();
    let length: u64 = kani::any();
    kani::assume(index < (1u64 << 40) && length < (1u64 << 40));
    let hash: [u8; 32] = kani::any();
    Node::new(index, hash.to_vec(), length)
}
fn nodes40_upto2() -> Vec<Node> {
    let cnt: u8 = kani::any();
    kani::assume(cnt <= 2);
    let mut v = Vec::with_capacity(2);
    if cnt >= 1 {
        v.push(node40());
    }
    if cnt >= 2 {
        v.push(node40());
    }
    v
}

fn lt40(x: u64) -> bool {
    x < (1u64 << 40)
}

// ------------------------------------------------------------------------------------------ C09

fn request_on<const N: usize>(block: bool, hash: bool, seek: bool, upgrade: bool) {
    let mut t = if N == 3 { literal_tree3() } else { empty_tree() };
    let b = RequestBlock { index: kani::any(), nodes: kani::any() };
    let h = RequestBlock { index: kani::any(), nodes: kani::any() };
    let s = RequestSeek { bytes: kani::any() };
    let u = RequestUpgrade { start: kani::any(), length: kani::any() };
    kani::assume(lt40(b.index) && lt40(b.nodes) && lt40(h.index) && lt40(h.nodes) && lt40(s.bytes) && lt40(u.start) && lt40(u.length));
    let r = t.create_valueless_proof(
        if block { Some(&b) } else { None },
        if hash { Some(&h) } else { None },
        if seek { Some(&s) } else { None },
        if upgrade { Some(&u) } else { None },
        None,
    );
    // a value or an error -- never a panic (Kani's checks), and the tree is untouched
    assert!(t.length == N as u64);
    kani::cover!(r.is_ok(), "some request is served");
    kani::cover!(r.is_err(), "some request is refused");
    kani::cover!(true, "reached end");
    std::mem::forget(r);
    std::mem::forget(t);
}

macro_rules! c09_req {
    ($name:ident, $n:expr, $b:expr, $h:expr, $s:expr, $u:expr) => {
        #[kani::proof]
        #[kani::stub(std::fmt::format, stub_format)]
        fn $name() {
            request_on::<$n>($b, $h, $s, $u);
        }
    };
}
// Whole-request harnesses: kept for the thorough tier; in this sandbox they exhaust 9 GB
// (IntMap lookups with symbolic node indices along every walk), so they are reported inconclusive.
c09_req!(c09_req_block_n3, 3, true, false, false, false);
c09_req!(c09_req_upgrade_n3, 3, false, false, false, true);
c09_req!(c09_req_block_upgrade_n3, 3, true, false, false, true);

/// nodes_to_root: the walk that turns a peer-supplied node count into a sub-tree root.
/// Every index / count / head below 2^40: returns Ok or Err, no overflow, terminates.
#[kani::proof]
#[kani::stub(std::fmt::format, stub_format)]
fn c09_nodes_to_root() {
    let index: u64 = kani::any();
    let nodes: u64 = kani::any();
    let head: u64 = kani::any();
    kani::assume(lt40(index) && lt40(nodes) && lt40(head) && head % 2 == 0);
    let r = nodes_to_root(index, nodes, head);
    kani::cover!(r.is_ok(), "accepted");
    kani::cover!(r.is_err(), "refused");
    kani::cover!(true, "reached end");
    std::mem::forget(r);
}

/// normalize_indexed: block / hash request normalisation (right_span of a peer-supplied index).
#[kani::proof]
#[kani::stub(std::fmt::format, stub_format)]
fn c09_normalize_indexed() {
    let b = RequestBlock { index: kani::any(), nodes: kani::any() };
    kani::assume(lt40(b.index) && lt40(b.nodes));
    let as_block: bool = kani::any();
    let r = if as_block { normalize_indexed(Some(&b), None) } else { normalize_indexed(None, Some(&b)) };
    let r = r.unwrap();
    assert!(r.value == as_block);
    if as_block {
        assert!(r.index == 2 * b.index && r.last_index == b.index);
    } else {
        assert!(r.index == b.index && r.last_index >= r.index / 2);
    }
    kani::cover!(true, "reached end");
}

/// NodeQueue::shift with an arbitrary expected index on a queue of 0..2 arbitrary nodes (+extra).
#[kani::proof]
#[kani::stub(std::fmt::format, stub_format)]
fn c09_node_queue_shift() {
    let nodes = nodes40_upto2();
    let has_extra: bool = kani::any();
    let extra = if has_extra { Some(node40()) } else { None };
    let mut q = NodeQueue::new(nodes, extra);
    let l0 = q.length;
    let r1 = q.shift(kani::any());
    let r2 = q.shift(kani::any());
    let r3 = q.shift(kani::any());
    let r4 = q.shift(kani::any());
    let taken = r1.is_ok() as usize + r2.is_ok() as usize + r3.is_ok() as usize + r4.is_ok() as usize;
    assert!(q.length + taken == l0);
    assert!(taken <= l0);
    kani::cover!(taken == 3, "queue drained");
    kani::cover!(true, "reached end");
    std::mem::forget((r1, r2, r3, r4));
}

/// verify_upgrade on a replica changeset (empty tree) with a structurally arbitrary upgrade:
/// start/length below 2^40, 0..2 arbitrary nodes, 0..1 additional node, a 64-byte signature.
/// Must return Ok/Err; in particular a zero-length upgrade to an empty replica must not index the
/// empty root list.
#[kani::proof]
#[kani::stub(std::fmt::format, stub_format)]
fn c09_verify_upgrade_empty_replica() {
    let t = empty_tree();
    let mut cs = t.changeset();
    let sig: [u8; 64] = kani::any();
    let add_one: bool = kani::any();
    let upgrade = DataUpgrade {
        start: kani::any(),
        length: kani::any(),
        nodes: nodes40_upto2(),
        additional_nodes: if add_one { vec![node40()] } else { vec![] },
        signature: sig.to_vec(),
    };
    kani::assume(lt40(upgrade.start) && lt40(upgrade.length));
    let pk = signing_key().verifying_key();
    let r = verify_upgrade(kani::any(), &upgrade, None, &pk, &mut cs);
    kani::cover!(r.is_err(), "refused");
    kani::cover!(true, "reached end");
    std::mem::forget(r);
    std::mem::forget(cs);
}

/// verify_tree with a structurally arbitrary block / hash / seek section.
#[kani::proof]
#[kani::stub(std::fmt::format, stub_format)]
fn c09_verify_tree_arbitrary() {
    let t = empty_tree();
    let mut cs = t.changeset();
    let which: u8 = kani::any();
    let idx: u64 = kani::any();
    kani::assume(lt40(idx));
    let block = DataBlock { index: idx, value: any_bytes_upto4(), nodes: nodes40_upto2() };
    let hash = DataHash { index: idx, nodes: nodes40_upto2() };
    let seek = DataSeek { bytes: kani::any(), nodes: nodes40_upto2() };
    let r = match which % 4 {
        0 => verify_tree(Some(&block), None, None, &mut cs),
        1 => verify_tree(None, Some(&hash), None, &mut cs),
        2 => verify_tree(None, None, Some(&seek), &mut cs),
        _ => verify_tree(Some(&block), None, Some(&seek), &mut cs),
    };
    kani::cover!(r.is_ok(), "accepted");
    kani::cover!(r.is_err(), "refused");
    kani::cover!(true, "reached end");
    std::mem::forget(r);
    std::mem::forget(cs);
}

/// verify_upgrade with an upgrade that carries no nodes (the cheapest structurally arbitrary
/// upgrade): start/length below 2^40 on an empty replica.  Reaches the zero-length case.
#[kani::proof]
#[kani::stub(std::fmt::format, stub_format)]
fn c09_verify_upgrade_no_nodes() {
    let t = empty_tree();
    let mut cs = t.changeset();
    let sig: [u8; 64] = kani::any();
    let upgrade = DataUpgrade { start: kani::any(), length: kani::any(), nodes: vec![], additional_nodes: vec![], signature: sig.to_vec() };
    kani::assume(lt40(upgrade.start) && lt40(upgrade.length));
    let pk = signing_key().verifying_key();
    let r = verify_upgrade(0, &upgrade, None, &pk, &mut cs);
    kani::cover!(r.is_err(), "refused");
    kani::cover!(true, "reached end");
    std::mem::forget(r);
    std::mem::forget(cs);
}

/// create_valueless_proof on the 3-block tree for a block request combined with an upgrade whose
/// target may lie below the requested block (small symbolic ranges: block 0..2, upgrade to 1..3).
#[kani::proof]
#[kani::stub(std::fmt::format, stub_format)]
fn c09_req_block_vs_upgrade_target() {
    let mut t = literal_tree3();
    let bi: u8 = kani::any();
    let ul: u8 = kani::any();
    kani::assume(bi < 3 && ul >= 1 && ul <= 3);
    let b = RequestBlock { index: bi as u64, nodes: 0 };
    let u = RequestUpgrade { start: 0, length: ul as u64 };
    let r = t.create_valueless_proof(Some(&b), None, None, Some(&u), None);
    kani::cover!(r.is_ok(), "served");
    kani::cover!(true, "reached end");
    std::mem::forget(r);
    std::mem::forget(t);
}

// ------------------------------------------------------------------------------------------ C03

/// Writer tree of N blocks with *symbolic contents*: block i has (i % 2) + 1 bytes.  Built by the
/// real append / hash_and_sign / commit path.  Returns the tree and the blocks.
pub(crate) fn writer_tree_sym<const N: usize>() -> (MerkleTree, Vec<Vec<u8>>) {
    let mut t = empty_tree();
    let sk = signing_key();
    let mut blocks: Vec<Vec<u8>> = Vec::with_capacity(N);
    let mut i = 0;
    while i < N {
        let mut d = Vec::with_capacity(2);
        d.push(kani::any::<u8>());
        if i % 2 == 1 {
            d.push(kani::any::<u8>());
        }
        let mut cs = t.changeset();
        cs.append(&d);
        cs.hash_and_sign(&sk);
        t.commit(cs).unwrap();
        blocks.push(d);
        i += 1;
    }
    (t, blocks)
}

fn prefix_sum(blocks: &[Vec<u8>], i: usize) -> u64 {
    let mut s = 0u64;
    let mut k = 0;
    while k < i {
        s += blocks[k].len() as u64;
        k += 1;
    }
    s
}

fn unwrap_right<L, R>(e: Either<L, R>) -> R {
    match e {
        Either::Right(r) => r,
        Either::Left(_) => panic!("storage instruction requested although every node is in memory"),
    }
}

/// One honest replication round on `replica` (whose length is `from`): request block `index` with
/// the replica's own missing-node count, plus an upgrade to `to` if `to > from`.  Asserts the proof
/// is served, accepted, commitable; that the block's byte offset is the writer's prefix sum; and
/// that after commit the replica reports the writer's length / byte length at `to`.
fn honest_round(writer: &mut MerkleTree, replica: &mut MerkleTree, blocks: &[Vec<u8>], index: usize, to: usize) {
    let from = replica.length;
    let nodes = unwrap_right(replica.missing_nodes(2 * index as u64, None).unwrap());
    let block = RequestBlock { index: index as u64, nodes };
    let upgrade = RequestUpgrade { start: from, length: to as u64 - from };
    let up = if (to as u64) > from { Some(&upgrade) } else { None };
    let vp = unwrap_right(writer.create_valueless_proof(Some(&block), None, None, up, None).unwrap());
    let proof = vp.into_proof(Some(blocks[index].clone()));
    let pk = signing_key().verifying_key();
    let cs = unwrap_right(replica.verify_proof(&proof, &pk, None).unwrap());
    assert!(replica.commitable(&cs));
    let off = unwrap_right(replica.byte_offset_in_changeset(index as u64, &cs, None).unwrap());
    assert!(off == prefix_sum(blocks, index));
    replica.commit(cs).unwrap();
    assert!(replica.length == to as u64);
    assert!(replica.byte_length == prefix_sum(blocks, to));
}

fn c03_scenario<const N: usize>(first: usize, mid: usize, second: usize) {
    let (mut writer, blocks) = writer_tree_sym::<N>();
    let mut replica = empty_tree();
    // round 1: block `first` with an upgrade 0 -> mid; round 2: block `second` with mid -> N
    honest_round(&mut writer, &mut replica, &blocks, first, mid);
    honest_round(&mut writer, &mut replica, &blocks, second, N);
    // every node the replica holds is the writer's node
    let k: u64 = kani::any();
    kani::assume(k < 2 * N as u64);
    if let Some(rn) = replica.unflushed.get(k) {
        let wn = writer.unflushed.get(k).unwrap();
        assert!(node_eq(rn, wn));
    }
    kani::cover!(true, "reached end");
    std::mem::forget(writer);
    std::mem::forget(replica);
}

macro_rules! c03 {
    ($name:ident, $n:expr, $first:expr, $mid:expr, $second:expr) => {
        #[kani::proof]
        #[kani::stub(std::fmt::format, stub_format)]
        fn $name() {
            c03_scenario::<$n>($first, $mid, $second);
        }
    };
}
c03!(c03_n2_full_then_block, 2, 0, 2, 1);
c03!(c03_n2_partial_upgrade, 2, 0, 1, 1);
c03!(c03_n3_partial_upgrade, 3, 1, 2, 2);
c03!(c03_n4_far_block, 4, 3, 4, 0);

// --------------------------------------------------------------------------- C03/C04 micro steps

/// verify_tree on a block proof of fixed shape (block 0, sibling leaf 2): the recomputed root is
/// node 1 = parent(leaf(value), sibling) with the summed length, and the changeset lists
/// leaf, sibling, parent in that order.  Block bytes, sibling hash and sibling length symbolic.
#[kani::proof]
#[kani::stub(std::fmt::format, stub_format)]
fn c03_verify_tree_block_n2() {
    let t = empty_tree();
    let mut cs = t.changeset();
    let value: Vec<u8> = vec![kani::any(), kani::any()];
    let sh: [u8; 32] = kani::any();
    let sl: u64 = kani::any();
    kani::assume(sl < (1 << 40));
    let sibling = Node::new(2, sh.to_vec(), sl);
    let block = DataBlock { index: 0, value: value.clone(), nodes: vec![sibling.clone()] };
    let root = verify_tree(Some(&block), None, None, &mut cs).unwrap().unwrap();
    let leaf = Node::new(0, Hash::data(&value).as_bytes().to_vec(), 2);
    let expect = Node::new(1, Hash::parent(&leaf, &sibling).as_bytes().to_vec(), 2 + sl);
    assert!(node_eq(&root, &expect));
    assert!(cs.nodes.len() == 3);
    assert!(node_eq(&cs.nodes[0], &leaf) && node_eq(&cs.nodes[1], &sibling) && node_eq(&cs.nodes[2], &expect));
    kani::cover!(true, "reached end");
    std::mem::forget(cs);
}

fn sym_leaf_root() -> (Node, Vec<u8>) {
    let value: Vec<u8> = vec![kani::any(), kani::any()];
    let leaf = Node::new(0, Hash::data(&value).as_bytes().to_vec(), 2);
    (leaf, value)
}

/// The writer's signature over a one-root tree of length 1 (what hash_and_sign produces).
fn sign_roots(roots: &[Node], length: u64, fork: u64, sk: &SigningKey) -> [u8; 64] {
    let hash = Hash::tree(roots);
    let signable = crate::crypto::signable_tree(hash.as_bytes(), length, fork);
    crate::crypto::sign(sk, &signable).to_bytes()
}

/// C03 step: an honest full upgrade 0 -> 1 (one root, the writer's signature) is accepted by an
/// empty replica and yields the writer's length / byte length / root.
#[kani::proof]
#[kani::stub(std::fmt::format, stub_format)]
fn c03_verify_upgrade_honest() {
    let t = empty_tree();
    let mut cs = t.changeset();
    let (leaf, _value) = sym_leaf_root();
    let sk = signing_key();
    let sig = sign_roots(&[leaf.clone()], 1, 0, &sk);
    let upgrade = DataUpgrade { start: 0, length: 1, nodes: vec![leaf.clone()], additional_nodes: vec![], signature: sig.to_vec() };
    let r = verify_upgrade(0, &upgrade, None, &sk.verifying_key(), &mut cs);
    assert!(r.is_ok());
    assert!(cs.length == 1 && cs.byte_length == 2 && cs.upgraded);
    assert!(cs.roots.len() == 1 && node_eq(&cs.roots[0], &leaf));
    assert!(cs.signature.is_some());
    assert!(t.commitable(&cs));
    kani::cover!(true, "reached end");
    std::mem::forget(cs);
}

/// C04 step: the same upgrade with exactly one altered field is refused: one signature byte
/// (symbolic position, symbolic different value), a signature made with another key, a signature
/// made for another length or fork, or one altered byte of the root hash.
#[kani::proof]
#[kani::stub(std::fmt::format, stub_format)]
fn c04_verify_upgrade_altered() {
    let t = empty_tree();
    let mut cs = t.changeset();
    let (leaf, _value) = sym_leaf_root();
    let sk = signing_key();
    let mut sig = sign_roots(&[leaf.clone()], 1, 0, &sk);
    let mut node = leaf.clone();
    let mut fork = 0u64;
    let which: u8 = kani::any();
    kani::assume(which < 5);
    let pos: usize = kani::any();
    let val: u8 = kani::any();
    match which {
        0 => {
            kani::assume(pos < 64 && val != sig[pos]);
            sig[pos] = val;
        }
        1 => {
            let other = SigningKey::from_bytes(&[8u8; 32]);
            sig = sign_roots(&[leaf.clone()], 1, 0, &other);
        }
        2 => sig = sign_roots(&[leaf.clone()], 2, 0, &sk),
        3 => fork = 1,
        _ => {
            kani::assume(pos < 32 && val != node.hash[pos]);
            node.hash[pos] = val;
        }
    }
    let upgrade = DataUpgrade { start: 0, length: 1, nodes: vec![node], additional_nodes: vec![], signature: sig.to_vec() };
    let r = verify_upgrade(fork, &upgrade, None, &sk.verifying_key(), &mut cs);
    assert!(r.is_err());
    kani::cover!(which == 4, "altered root hash");
    kani::cover!(true, "reached end");
    std::mem::forget(r);
    std::mem::forget(cs);
}

/// Replica that already holds the 2-block tree's root (node 1) and nothing else; the writer's
/// blocks are `value` (block 0) and a sibling leaf 2 with symbolic hash/length.
fn replica_with_root(value: &[u8], sibling: &Node) -> (MerkleTree, Node) {
    let leaf = Node::new(0, Hash::data(value).as_bytes().to_vec(), value.len() as u64);
    let root = Node::new(1, Hash::parent(&leaf, sibling).as_bytes().to_vec(), leaf.length + sibling.length);
    let mut t = empty_tree();
    t.unflushed.insert(1, root.clone());
    t.roots = vec![root.clone()];
    t.length = 2;
    t.byte_length = root.length;
    (t, root)
}

/// C03 step: a block proof without upgrade whose recomputed root equals the root the replica
/// already holds is accepted, is commitable, and places block 0 at byte offset 0.
#[kani::proof]
#[kani::stub(std::fmt::format, stub_format)]
fn c03_verify_proof_block_against_stored_root() {
    let value: Vec<u8> = vec![kani::any(), kani::any()];
    let sh: [u8; 32] = kani::any();
    let sl: u64 = kani::any();
    kani::assume(sl < (1 << 40));
    let sibling = Node::new(2, sh.to_vec(), sl);
    let (mut replica, _root) = replica_with_root(&value, &sibling);
    let proof = Proof { fork: 0, block: Some(DataBlock { index: 0, value: value.clone(), nodes: vec![sibling.clone()] }), hash: None, seek: None, upgrade: None };
    let pk = signing_key().verifying_key();
    let cs = unwrap_right(replica.verify_proof(&proof, &pk, None).unwrap());
    assert!(replica.commitable(&cs));
    assert!(!cs.upgraded);
    assert!(cs.length == 2 && cs.nodes.len() == 3);
    kani::cover!(true, "reached end");
    std::mem::forget(cs);
    std::mem::forget(replica);
}

/// C04 step: the same proof with one altered block byte or one altered sibling-hash byte (symbolic
/// position and value) is refused, and the replica is unchanged.
#[kani::proof]
#[kani::stub(std::fmt::format, stub_format)]
fn c04_verify_proof_block_altered() {
    let value: Vec<u8> = vec![kani::any(), kani::any()];
    let sh: [u8; 32] = kani::any();
    let sl: u64 = kani::any();
    kani::assume(sl < (1 << 40));
    let sibling = Node::new(2, sh.to_vec(), sl);
    let (mut replica, root) = replica_with_root(&value, &sibling);
    let mut bad_value = value.clone();
    let mut bad_sibling = sibling.clone();
    let in_value: bool = kani::any();
    let pos: usize = kani::any();
    let val: u8 = kani::any();
    if in_value {
        kani::assume(pos < 2 && val != bad_value[pos]);
        bad_value[pos] = val;
    } else {
        kani::assume(pos < 32 && val != bad_sibling.hash[pos]);
        bad_sibling.hash[pos] = val;
    }
    let proof = Proof { fork: 0, block: Some(DataBlock { index: 0, value: bad_value, nodes: vec![bad_sibling] }), hash: None, seek: None, upgrade: None };
    let pk = signing_key().verifying_key();
    let r = replica.verify_proof(&proof, &pk, None);
    assert!(r.is_err());
    assert!(replica.length == 2 && replica.roots.len() == 1 && node_eq(&replica.roots[0], &root));
    kani::cover!(in_value, "altered block byte");
    kani::cover!(!in_value, "altered sibling hash byte");
    kani::cover!(true, "reached end");
    std::mem::forget(r);
    std::mem::forget(replica);
}

// ------------------------------------------------------------------------------------------ C05

/// Tree shape: appending N one-byte blocks (symbolic contents) through the real
/// MerkleTreeChangeset::append / append_root yields exactly the nodes the flat in-order scheme
/// prescribes: leaf i at index 2i = H_leaf(block i), every full parent = H_parent(children) with
/// the summed size, roots = the binary decomposition of N, and hash_and_sign signs
/// signable(H_tree(roots), N, fork) with the writer's key.  The reference is written recursively
/// over (depth, offset) coordinates (ref_tree), not with the flat_tree iterator.
fn ref_node(depth: u32, offset: u64, blocks: &[u8]) -> Node {
    let idx = crate::verif::ref_tree::index(depth, offset);
    if depth == 0 {
        let d = [blocks[offset as usize]];
        Node::new(idx, Hash::data(&d).as_bytes().to_vec(), 1)
    } else {
        let l = ref_node(depth - 1, 2 * offset, blocks);
        let r = ref_node(depth - 1, 2 * offset + 1, blocks);
        Node::new(idx, Hash::parent(&l, &r).as_bytes().to_vec(), l.length + r.length)
    }
}

fn tree_shape<const N: usize>() {
    let t = empty_tree();
    let mut cs = t.changeset();
    let mut blocks = [0u8; N];
    let mut i = 0;
    while i < N {
        blocks[i] = kani::any();
        let len = cs.append(&[blocks[i]]);
        assert!(len == 1);
        i += 1;
    }
    assert!(cs.length == N as u64 && cs.byte_length == N as u64 && cs.batch_length == N as u64 && cs.upgraded);
    // roots: binary decomposition of N, left to right
    let mut want = [0u64; 64];
    let nroots = crate::verif::ref_tree::roots(N as u64, &mut want);
    assert!(cs.roots.len() == nroots);
    let mut r = 0;
    while r < nroots {
        let idx = want[r];
        let d = crate::verif::ref_tree::depth(idx);
        let expect = ref_node(d, crate::verif::ref_tree::offset(idx), &blocks);
        assert!(node_eq(&cs.roots[r], &expect));
        r += 1;
    }
    // every node the changeset will persist is the reference node of its index
    let k: usize = kani::any();
    kani::assume(k < cs.nodes.len());
    let idx = cs.nodes[k].index;
    let d = crate::verif::ref_tree::depth(idx);
    assert!(d <= 2 && crate::verif::ref_tree::right_span(idx) < 2 * N as u64);
    let expect = ref_node(d, crate::verif::ref_tree::offset(idx), &blocks);
    assert!(node_eq(&cs.nodes[k], &expect));
    // number of persisted nodes = leaves + full parents
    let mut parents = 0;
    let mut m = N;
    while m > 1 {
        m /= 2;
        parents += m;
    }
    assert!(cs.nodes.len() == N + parents);
    // signature over signable(tree hash, length, fork)
    let sk = signing_key();
    cs.hash_and_sign(&sk);
    let sig = sign_roots(&cs.roots, N as u64, 0, &sk);
    assert!(cs.signature.unwrap().to_bytes() == sig);
    assert!(cs.hash.as_ref().unwrap()[..] == Hash::tree(&cs.roots).as_bytes()[..]);
    kani::cover!(true, "reached end");
    std::mem::forget(cs);
}

/// Explicit small cases (no symbolic node position, no recursion): the persisted node list and the
/// root list written out by hand for N = 2 and N = 3.
fn leaf_of(i: u64, b: u8) -> Node {
    Node::new(2 * i, Hash::data(&[b]).as_bytes().to_vec(), 1)
}
fn parent_of(index: u64, l: &Node, r: &Node) -> Node {
    Node::new(index, Hash::parent(l, r).as_bytes().to_vec(), l.length + r.length)
}

#[kani::proof]
#[kani::stub(std::fmt::format, stub_format)]
fn c05_tree_shape_n2() {
    let t = empty_tree();
    let mut cs = t.changeset();
    let (b0, b1): (u8, u8) = (kani::any(), kani::any());
    cs.append(&[b0]);
    cs.append(&[b1]);
    let (l0, l2) = (leaf_of(0, b0), leaf_of(1, b1));
    let p1 = parent_of(1, &l0, &l2);
    assert!(cs.length == 2 && cs.byte_length == 2 && cs.batch_length == 2);
    assert!(cs.nodes.len() == 3 && cs.roots.len() == 1);
    assert!(node_eq(&cs.nodes[0], &l0) && node_eq(&cs.nodes[1], &l2) && node_eq(&cs.nodes[2], &p1));
    assert!(node_eq(&cs.roots[0], &p1));
    let sk = signing_key();
    cs.hash_and_sign(&sk);
    assert!(cs.signature.unwrap().to_bytes() == sign_roots(&[p1], 2, 0, &sk));
    kani::cover!(true, "reached end");
    std::mem::forget(cs);
}

#[kani::proof]
#[kani::stub(std::fmt::format, stub_format)]
fn c05_tree_shape_n3() {
    let t = empty_tree();
    let mut cs = t.changeset();
    let (b0, b1, b2): (u8, u8, u8) = (kani::any(), kani::any(), kani::any());
    cs.append(&[b0]);
    cs.append(&[b1]);
    cs.append(&[b2]);
    let (l0, l2, l4) = (leaf_of(0, b0), leaf_of(1, b1), leaf_of(2, b2));
    let p1 = parent_of(1, &l0, &l2);
    assert!(cs.length == 3 && cs.byte_length == 3);
    assert!(cs.nodes.len() == 4 && cs.roots.len() == 2);
    assert!(node_eq(&cs.nodes[0], &l0) && node_eq(&cs.nodes[1], &l2) && node_eq(&cs.nodes[2], &p1) && node_eq(&cs.nodes[3], &l4));
    assert!(node_eq(&cs.roots[0], &p1) && node_eq(&cs.roots[1], &l4));
    kani::cover!(true, "reached end");
    std::mem::forget(cs);
}

#[kani::proof]
#[kani::stub(std::fmt::format, stub_format)]
fn c05_tree_shape_n4() {
    tree_shape::<4>();
}


// ------------------------------------------------------------------- added: seeded-change classes

/// C03/C01: a block delivered together with an upgrade, lying under the SECOND root of the
/// upgraded tree, is placed after the first root's bytes -- computed from the changeset's roots, on
/// a replica whose own root list is empty (or different).  Empty replica, upgraded tree of 3
/// blocks (roots 1 and 4), block 2 = leaf 4; lengths symbolic.
#[kani::proof]
#[kani::stub(std::fmt::format, stub_format)]
fn c03_byte_offset_in_changeset_later_root() {
    let mut t = empty_tree();
    let l1: u64 = kani::any();
    let l4: u64 = kani::any();
    kani::assume(l1 < (1 << 40) && l4 < (1 << 40));
    let r1 = Node::new(1, vec![0x11; 32], l1);
    let n4 = Node::new(4, vec![0x14; 32], l4);
    let mut cs = t.changeset();
    cs.nodes = vec![n4.clone()];
    cs.roots = vec![r1, n4];
    cs.length = 3;
    cs.byte_length = l1 + l4;
    cs.upgraded = true;
    let off = unwrap_right(t.byte_offset_in_changeset(2, &cs, None).unwrap());
    assert!(off == l1);
    kani::cover!(true, "reached end");
    std::mem::forget(cs);
    std::mem::forget(t);
}

/// Same on a replica that already holds one block (root = leaf 0) and upgrades 1 -> 3: the
/// changeset's roots are [1, 4], the replica's own are [0]; block 2 goes to offset len(root 1).
#[kani::proof]
#[kani::stub(std::fmt::format, stub_format)]
fn c03_byte_offset_in_changeset_roots_differ() {
    let mut t = empty_tree();
    let l0: u64 = kani::any();
    let l1: u64 = kani::any();
    let l4: u64 = kani::any();
    kani::assume(l0 < (1 << 30) && l1 < (1 << 40) && l4 < (1 << 40) && l0 != l1);
    let n0 = Node::new(0, vec![0x10; 32], l0);
    t.unflushed.insert(0, n0.clone());
    t.roots = vec![n0];
    t.length = 1;
    t.byte_length = l0;
    let r1 = Node::new(1, vec![0x11; 32], l1);
    let n4 = Node::new(4, vec![0x14; 32], l4);
    let mut cs = t.changeset();
    cs.nodes = vec![n4.clone()];
    cs.roots = vec![r1, n4];
    cs.length = 3;
    cs.byte_length = l1 + l4;
    cs.upgraded = true;
    let off = unwrap_right(t.byte_offset_in_changeset(2, &cs, None).unwrap());
    assert!(off == l1);
    kani::cover!(true, "reached end");
    std::mem::forget(cs);
    std::mem::forget(t);
}

/// C02/C05 (replay on open): `truncate(length)` rebuilds the root list for a length at which two or
/// more old roots merge into one (3 blocks, roots [1,4] -> 4 blocks, root [3]); the nodes of the
/// replayed entry were added with add_node.  The changeset must carry exactly the new root, the
/// new length and the byte length of that root.
/// 3-block tree with only its root list populated (roots 1 and 4, 3 bytes each); nodes are added
/// to `unflushed` by the harness as needed (every IntMap insert costs symbolic-execution time).
fn roots_only_tree3() -> MerkleTree {
    let mut t = empty_tree();
    t.roots = vec![Node::new(1, vec![0x11; 32], 3), Node::new(4, vec![0x14; 32], 3)];
    t.length = 3;
    t.byte_length = 6;
    t
}

#[kani::proof]
#[kani::stub(std::fmt::format, stub_format)]
fn c02_replay_truncate_merges_roots() {
    let mut t = roots_only_tree3();
    let l6: u64 = kani::any();
    kani::assume(l6 < (1 << 40));
    // the replayed entry's nodes were added with add_node; only the new root is looked up
    t.add_node(Node::new(3, vec![0x13; 32], 6 + l6));
    let cs = unwrap_right(t.truncate(4, 0, None).unwrap());
    assert!(cs.roots.len() == 1);
    assert!(cs.roots[0].index == 3 && cs.roots[0].length == 6 + l6);
    assert!(cs.length == 4 && cs.ancestors == 4 && cs.byte_length == 6 + l6 && cs.upgraded && cs.fork == 0);
    kani::cover!(true, "reached end");
    std::mem::forget(cs);
    std::mem::forget(t);
}

/// ... and for lengths at which the root list shrinks (3 -> 2: roots [1,4] -> [1]) or stays.
#[kani::proof]
#[kani::stub(std::fmt::format, stub_format)]
fn c02_replay_truncate_grow_and_shrink() {
    let mut t = roots_only_tree3();
    let cs = unwrap_right(t.truncate(2, 0, None).unwrap());
    assert!(cs.roots.len() == 1 && cs.roots[0].index == 1 && cs.length == 2 && cs.byte_length == 3);
    let cs3 = unwrap_right(t.truncate(3, 0, None).unwrap());
    assert!(cs3.roots.len() == 2 && cs3.roots[0].index == 1 && cs3.roots[1].index == 4 && cs3.length == 3 && cs3.byte_length == 6);
    kani::cover!(true, "reached end");
    std::mem::forget(cs);
    std::mem::forget(cs3);
    std::mem::forget(t);
}

/// C09: a seek whose byte offset lies before the sub-tree it is checked against, while that
/// sub-tree's root node is not in memory (it has been flushed and was not among the nodes read so
/// far): every `bytes` below 2^40 gives a value, an instruction list or an error -- never an
/// arithmetic overflow.  Tree of 3 blocks (roots 1 and 4, 3 bytes each), sub-tree root 4 missing
/// from memory.
#[kani::proof]
#[kani::stub(std::fmt::format, stub_format)]
fn c09_seek_untrusted_flushed_root() {
    let t = roots_only_tree3(); // node 4 is a root but not in `unflushed`: it has been flushed
    let bytes: u64 = kani::any();
    kani::assume(bytes < (1 << 40));
    let nodes: IntMap<Option<Node>> = IntMap::new();
    let r = t.seek_untrusted_tree(4, bytes, &nodes);
    if bytes < 3 {
        assert!(r.is_err()); // before the sub-tree: "wrong offset"
    }
    kani::cover!(r.is_ok(), "instructions or index");
    kani::cover!(r.is_err(), "refused");
    kani::cover!(true, "reached end");
    std::mem::forget(r);
    std::mem::forget(t);
}

/// C09: same walk with every node in memory (the path the other harnesses do not reach with a
/// symbolic offset): `bytes` anywhere below 2^40 against sub-tree root 4 and root 1.
#[kani::proof]
#[kani::stub(std::fmt::format, stub_format)]
fn c09_seek_untrusted_in_memory() {
    let t = literal_tree3();
    let bytes: u64 = kani::any();
    kani::assume(bytes < (1 << 40));
    let second: bool = kani::any();
    let nodes: IntMap<Option<Node>> = IntMap::new();
    let r = t.seek_untrusted_tree(if second { 4 } else { 1 }, bytes, &nodes);
    if second && bytes < 3 {
        assert!(r.is_err());
    }
    if second && bytes >= 6 {
        assert!(r.is_err());
    }
    kani::cover!(r.is_ok(), "found");
    kani::cover!(true, "reached end");
    std::mem::forget(r);
    std::mem::forget(t);
}

/// C04 (and C03 for the honest variant): a proof that carries a block BELOW the replica's length
/// together with a genuine upgrade from the replica's length.  Replica: 2 blocks (holds root 1
/// only).  Writer grew to 3 blocks (roots 1 and 4).  Proof: block 0 (+ sibling leaf 2) and upgrade
/// 2 -> 3 (node 4, the writer's signature over [root 1, leaf 4]).  Honest: accepted, commitable,
/// length 3.  With one altered block byte (symbolic position and value): refused -- a valid
/// upgrade must not switch off the comparison of the block's root with the replica's own node.
fn block_plus_upgrade<const ALTER: bool>() {
    let value: Vec<u8> = vec![kani::any(), kani::any()];
    let sh: [u8; 32] = kani::any();
    let sibling = Node::new(2, sh.to_vec(), 5);
    let (mut replica, root) = replica_with_root(&value, &sibling);
    let sk = signing_key();
    let h4: [u8; 32] = kani::any();
    let n4 = Node::new(4, h4.to_vec(), 3);
    let sig = sign_roots(&[root.clone(), n4.clone()], 3, 0, &sk);
    let mut v2 = value.clone();
    if ALTER {
        let pos: usize = kani::any();
        let val: u8 = kani::any();
        kani::assume(pos < 2 && val != v2[pos]);
        v2[pos] = val;
    }
    let proof = Proof {
        fork: 0,
        block: Some(DataBlock { index: 0, value: v2, nodes: vec![sibling.clone()] }),
        hash: None,
        seek: None,
        upgrade: Some(DataUpgrade { start: 2, length: 1, nodes: vec![n4.clone()], additional_nodes: vec![], signature: sig.to_vec() }),
    };
    let r = replica.verify_proof(&proof, &sk.verifying_key(), None);
    if ALTER {
        assert!(r.is_err());
        assert!(replica.length == 2 && replica.roots.len() == 1 && node_eq(&replica.roots[0], &root));
        std::mem::forget(r);
    } else {
        let cs = unwrap_right(r.unwrap());
        assert!(cs.upgraded && cs.length == 3 && cs.roots.len() == 2 && cs.byte_length == root.length + 3);
        assert!(replica.commitable(&cs));
        std::mem::forget(cs);
    }
    kani::cover!(true, "reached end");
    std::mem::forget(replica);
}

#[kani::proof]
#[kani::stub(std::fmt::format, stub_format)]
fn c04_block_plus_upgrade_altered_block() {
    block_plus_upgrade::<true>();
}

#[kani::proof]
#[kani::stub(std::fmt::format, stub_format)]
fn c03_block_plus_upgrade_honest() {
    block_plus_upgrade::<false>();
}

/// C05/C06: tree store layout.  One unflushed node (index concrete per instance, length and hash
/// symbolic): `flush()` writes it at byte 40*index as LE64(length) || 32-byte hash, in the tree
/// store; `index_from_info` / `node_from_bytes` read exactly that node back; a pending truncation is
/// flushed first, at 40*(2*length - 1) (node count of a tree of `length` blocks) or 0.
fn node_store_layout<const INDEX: u64>() {
    let mut t = empty_tree();
    let length: u64 = kani::any();
    let hash: [u8; 32] = kani::any();
    let node = Node::new(INDEX, hash.to_vec(), length);
    t.unflushed.insert(INDEX, node.clone());
    let tt: u64 = kani::any();
    kani::assume(tt < (1 << 40));
    let truncated: bool = kani::any();
    t.truncated = truncated;
    t.truncate_to = tt;
    let infos = t.flush();
    assert!(infos.len() == if truncated { 2 } else { 1 });
    if truncated {
        let i0 = &infos[0];
        assert!(i0.store == Store::Tree && i0.miss && i0.info_type == crate::common::StoreInfoType::Size);
        assert!(i0.index == if tt == 0 { 0 } else { (2 * tt - 1) * 40 });
    }
    let w = &infos[infos.len() - 1];
    assert!(w.store == Store::Tree && !w.miss && w.info_type == crate::common::StoreInfoType::Content);
    assert!(w.index == 40 * INDEX);
    let d = w.data.as_ref().unwrap();
    assert!(d.len() == 40);
    let le = length.to_le_bytes();
    let k: usize = kani::any();
    kani::assume(k < 40);
    assert!(d[k] == if k < 8 { le[k] } else { hash[k - 8] });
    // read side
    assert!(index_from_info(w) == INDEX);
    let back = node_from_bytes(&INDEX, d).unwrap();
    assert!(node_eq(&back, &node));
    assert!(!t.truncated && t.truncate_to == 0);
    kani::cover!(truncated, "with truncation");
    kani::cover!(true, "reached end");
    std::mem::forget(infos);
    std::mem::forget(t);
}

#[kani::proof]
#[kani::stub(std::fmt::format, stub_format)]
fn c05_node_store_layout_i5() {
    node_store_layout::<5>();
}

#[kani::proof]
#[kani::stub(std::fmt::format, stub_format)]
fn c05_node_store_layout_i0() {
    node_store_layout::<0>();
}
