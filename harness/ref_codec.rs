//! Independent reference encoder for compact-encoding and the Hypercore 10 on-disk / wire layouts.
//! Written from the format description (JS `compact-encoding`, `hypercore/lib/messages.js`,
//! `hypercore/lib/oplog.js`), not from the crate under test: no item of `compact_encoding` or of
//! `crate::encoding` is used here.
#![allow(dead_code)]

/// Cursor over a fixed-capacity byte buffer (no allocation, no symbolic-size objects).
pub struct W<const N: usize> {
    pub buf: [u8; N],
    pub pos: usize,
    /// field boundaries recorded by `mark()` (used to choose concrete cut points)
    pub marks: [usize; 12],
    pub nmarks: usize,
}

impl<const N: usize> W<N> {
    pub fn new() -> Self {
        W { buf: [0u8; N], pos: 0, marks: [0; 12], nmarks: 0 }
    }
    pub fn mark(&mut self) {
        self.marks[self.nmarks] = self.pos;
        self.nmarks += 1;
    }
    pub fn u8(&mut self, b: u8) {
        self.buf[self.pos] = b;
        self.pos += 1;
    }
    pub fn le16(&mut self, v: u16) {
        self.u8(v as u8);
        self.u8((v >> 8) as u8);
    }
    pub fn le32(&mut self, v: u32) {
        self.le16(v as u16);
        self.le16((v >> 16) as u16);
    }
    pub fn le64(&mut self, v: u64) {
        self.le32(v as u32);
        self.le32((v >> 32) as u32);
    }
    /// compact-encoding `uint`: 1 byte below 0xfd, else 0xfd+LE16, 0xfe+LE32, 0xff+LE64.
    pub fn uint(&mut self, v: u64) {
        if v <= 0xfc {
            self.u8(v as u8);
        } else if v <= 0xffff {
            self.u8(0xfd);
            self.le16(v as u16);
        } else if v <= 0xffff_ffff {
            self.u8(0xfe);
            self.le32(v as u32);
        } else {
            self.u8(0xff);
            self.le64(v);
        }
    }
    pub fn raw(&mut self, b: &[u8]) {
        let mut i = 0;
        while i < b.len() {
            self.u8(b[i]);
            i += 1;
        }
    }
    /// compact-encoding `buffer`: uint length prefix then the bytes.
    pub fn bytes(&mut self, b: &[u8]) {
        self.uint(b.len() as u64);
        self.raw(b);
    }
    /// wire node: uint index, uint size, 32 raw hash bytes
    pub fn node(&mut self, index: u64, length: u64, hash: &[u8; 32]) {
        self.uint(index);
        self.uint(length);
        self.raw(hash);
    }
    pub fn written(&self) -> &[u8] {
        &self.buf[..self.pos]
    }
}

pub fn uint_size(v: u64) -> usize {
    if v <= 0xfc {
        1
    } else if v <= 0xffff {
        3
    } else if v <= 0xffff_ffff {
        5
    } else {
        9
    }
}

/// Bitwise reflected CRC-32 (IEEE 802.3, poly 0xEDB88320), the checksum the JS oplog uses
/// (`crc32-universal`).  Written from the definition; no table.
pub fn crc32_bitwise(data: &[u8]) -> u32 {
    let mut crc: u32 = 0xffff_ffff;
    let mut i = 0;
    while i < data.len() {
        crc ^= data[i] as u32;
        let mut k = 0;
        while k < 8 {
            let lsb = crc & 1;
            crc >>= 1;
            if lsb != 0 {
                crc ^= 0xEDB8_8320;
            }
            k += 1;
        }
        i += 1;
    }
    !crc
}

pub fn eq_bytes(a: &[u8], b: &[u8]) -> bool {
    if a.len() != b.len() {
        return false;
    }
    let mut i = 0;
    let mut ok = true;
    while i < a.len() {
        if a[i] != b[i] {
            ok = false;
        }
        i += 1;
    }
    ok
}
