//! Child module of `hypercore::replication::events` (overlay variant "st", async-broadcast MODEL):
//! the unit part of C13 -- what `Events` hands to subscribers for the values core.rs gives it.
//! Where core.rs emits events (only after the commit, never on a failing path, upgrade before
//! have, one Get per missing read) is decided on core.rs's MIR (lib/mirpath.py).
#![allow(unused_imports, dead_code, future_incompatible, rust_2018_idioms, unsafe_code, missing_docs, missing_debug_implementations, unreachable_pub, clippy::all)]
use super::*;
use crate::common::BitfieldUpdate;
use async_broadcast::TryRecvError;

/// `Have::from(&BitfieldUpdate)` is field-exact for every update.
#[kani::proof]
fn c13_have_from_update() {
    let u = BitfieldUpdate { drop: kani::any(), start: kani::any(), length: kani::any() };
    let h = Have::from(&u);
    assert!(h.start == u.start && h.length == u.length && h.drop == u.drop);
    kani::cover!(true, "reached end");
}

/// Two subscribers attached before an append's two events: both see DataUpgrade then
/// Have{start,length,drop} with exactly the announced range, in that order, and nothing else.
#[kani::proof]
fn c13_events_two_subscribers_in_order() {
    let ev = Events::new();
    let mut r1 = ev.channel.new_receiver();
    let mut r2 = ev.channel.new_receiver();
    let u = BitfieldUpdate { drop: false, start: kani::any(), length: kani::any() };
    let _ = ev.send(DataUpgrade {});
    let _ = ev.send(Have::from(&u));
    let a1 = r1.try_recv();
    let a2 = r1.try_recv();
    let a3 = r1.try_recv();
    assert!(matches!(a1, Ok(Event::DataUpgrade(_))));
    match a2 {
        Ok(Event::Have(h)) => assert!(h.start == u.start && h.length == u.length && !h.drop),
        _ => assert!(false, "second event must be Have"),
    }
    assert!(matches!(a3, Err(TryRecvError::Empty)));
    let b1 = r2.try_recv();
    let b2 = r2.try_recv();
    let b3 = r2.try_recv();
    assert!(matches!(b1, Ok(Event::DataUpgrade(_))));
    match b2 {
        Ok(Event::Have(h)) => assert!(h.start == u.start && h.length == u.length && !h.drop),
        _ => assert!(false, "second event must be Have"),
    }
    assert!(matches!(b3, Err(TryRecvError::Empty)));
    kani::cover!(true, "reached end");
    std::mem::forget(r1);
    std::mem::forget(r2);
    std::mem::forget(ev);
}

/// A read of a block that is not held: exactly one Get event carrying that index.
#[kani::proof]
fn c13_send_on_get_one_event() {
    let ev = Events::new();
    let mut r1 = ev.channel.new_receiver();
    let index: u64 = kani::any();
    let rx = ev.send_on_get(index);
    match r1.try_recv() {
        Ok(Event::Get(g)) => assert!(g.index == index),
        _ => assert!(false, "a Get event must be delivered"),
    }
    assert!(matches!(r1.try_recv(), Err(TryRecvError::Empty)));
    kani::cover!(true, "reached end");
    std::mem::forget(rx);
    std::mem::forget(r1);
    std::mem::forget(ev);
}

/// Without a subscriber sending is a silent no-op (no panic, no error), and a subscriber attached
/// later does not see earlier events.
#[kani::proof]
fn c13_no_subscriber_no_backlog() {
    let ev = Events::new();
    let r = ev.send(DataUpgrade {});
    assert!(r.is_ok());
    let mut late = ev.channel.new_receiver();
    assert!(matches!(late.try_recv(), Err(TryRecvError::Empty)));
    kani::cover!(true, "reached end");
    std::mem::forget(late);
    std::mem::forget(ev);
}
