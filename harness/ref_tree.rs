//! Independent flat-tree arithmetic and Merkle reference (recursive definitions; the `flat_tree`
//! crate and its iterator are not used here).
#![allow(dead_code)]

/// depth of a flat-tree index = number of trailing one bits
pub fn depth(i: u64) -> u32 {
    (!i).trailing_zeros()
}
/// index of the node at (depth, offset)
pub fn index(depth: u32, offset: u64) -> u64 {
    (offset << (depth + 1)) | ((1u64 << depth) - 1)
}
pub fn offset(i: u64) -> u64 {
    let d = depth(i);
    i >> (d + 1)
}
pub fn left_span(i: u64) -> u64 {
    let d = depth(i);
    if d == 0 { i } else { offset(i) * (2u64 << d) }
}
pub fn right_span(i: u64) -> u64 {
    let d = depth(i);
    if d == 0 { i } else { (offset(i) + 1) * (2u64 << d) - 2 }
}
/// Root indices of a tree with `n` leaves, left to right (binary decomposition of n).
pub fn roots(n: u64, out: &mut [u64; 64]) -> usize {
    let mut cnt = 0;
    let mut leaves_before: u64 = 0;
    let mut bit: i32 = 63;
    while bit >= 0 {
        let size = 1u64 << bit;
        if n & size != 0 {
            // subtree of `size` leaves starting at leaf `leaves_before`: depth = bit
            out[cnt] = index(bit as u32, leaves_before >> bit);
            cnt += 1;
            leaves_before += size;
        }
        bit -= 1;
    }
    cnt
}
