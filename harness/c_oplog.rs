//! Child module of `hypercore::oplog` (attached by the overlay): sees `Oplog`'s private items.
//! C01/C06: entry + header codecs (replay path) vs the reference layout;
//! C02/C06/C07: `Oplog::open` on images built from the crate's own `StoreInfo`s and from the
//! reference encoder, with crash / torn-write cut points.
#![allow(unused_imports, dead_code, future_incompatible, rust_2018_idioms, unsafe_code, missing_docs, missing_debug_implementations, unreachable_pub, clippy::all)]
use super::entry::{Entry, EntryTreeUpgrade};
use super::header::{Header, HeaderTree};
use super::*;
use crate::common::{BitfieldUpdate, Store, StoreInfo, StoreInfoType};
use crate::crypto::PartialKeypair;
use crate::verif::ref_codec::{crc32_bitwise, W};
use crate::verif::util::*;
use crate::Node;
use compact_encoding::CompactEncoding;
use ed25519_dalek::SigningKey;

// ------------------------------------------------------------------------------------ reference

/// Reference entry layout (JS `oplog.entry`): flags byte (1 userData, 2 treeNodes, 4 treeUpgrade,
/// 8 bitfield) followed by the present sections in that order.
pub(crate) struct RefEntry<'a> {
    pub nodes: &'a [Node],
    pub upgrade: Option<(u64, u64, u64, &'a [u8])>, // fork, ancestors, length, signature
    pub bitfield: Option<(bool, u64, u64)>,          // drop, start, length
}

pub(crate) fn ref_entry<const C: usize>(w: &mut W<C>, e: &RefEntry<'_>) {
    let mut flags = 0u8;
    if !e.nodes.is_empty() {
        flags |= 2;
    }
    if e.upgrade.is_some() {
        flags |= 4;
    }
    if e.bitfield.is_some() {
        flags |= 8;
    }
    w.u8(flags);
    if !e.nodes.is_empty() {
        w.uint(e.nodes.len() as u64);
        let mut i = 0;
        while i < e.nodes.len() {
            w.node(e.nodes[i].index, e.nodes[i].length, &hash32(&e.nodes[i]));
            i += 1;
        }
    }
    if let Some((fork, anc, len, sig)) = e.upgrade {
        w.uint(fork);
        w.uint(anc);
        w.uint(len);
        w.bytes(sig);
    }
    if let Some((drop, start, len)) = e.bitfield {
        w.u8(if drop { 1 } else { 0 });
        w.uint(start);
        w.uint(len);
    }
}

fn mk_entry(nodes: Vec<Node>, upgrade: Option<(u64, u64, u64, [u8; 64])>, bitfield: Option<(bool, u64, u64)>) -> Entry {
    Entry {
        user_data: vec![],
        tree_nodes: nodes,
        tree_upgrade: upgrade.map(|(fork, ancestors, length, sig)| EntryTreeUpgrade {
            fork,
            ancestors,
            length,
            signature: sig.to_vec().into_boxed_slice(),
        }),
        bitfield: bitfield.map(|(drop, start, length)| BitfieldUpdate { drop, start, length }),
    }
}

fn entry_eq(a: &Entry, b: &Entry) -> bool {
    let up = match (&a.tree_upgrade, &b.tree_upgrade) {
        (None, None) => true,
        (Some(x), Some(y)) => {
            x.fork == y.fork && x.ancestors == y.ancestors && x.length == y.length && x.signature == y.signature
        }
        _ => false,
    };
    a.user_data.is_empty() && b.user_data.is_empty() && nodes_eq(&a.tree_nodes, &b.tree_nodes) && up && a.bitfield == b.bitfield
}

/// size == reference size, bytes == reference bytes, decode(bytes) == entry with nothing left.
fn check_entry<const C: usize>(e: &Entry, r: &W<C>) {
    let n = e.encoded_size().unwrap();
    assert!(n == r.pos);
    let mut buf = [0u8; C];
    let left = e.encode(&mut buf).unwrap().len();
    assert!(left == C - n);
    let j: usize = kani::any();
    kani::assume(j < C);
    assert!(buf[j] == r.buf[j]);
    // the replay path: what `Oplog::open` does with the stored bytes.  Decoding the reference
    // buffer is equivalent (bytes were just shown equal) and keeps constants propagating: the
    // reference writes by direct indexing, the crate through memcpy, which CBMC does not split
    // into per-byte constants.
    // (slice by r.pos, a constant for CBMC; `n` computed by the crate is not constant-folded)
    let (d, rest) = Entry::decode(&r.buf[..r.pos]).unwrap();
    assert!(rest.is_empty());
    assert!(entry_eq(&d, e));
    kani::cover!(true, "reached end");
}

fn fw_node(index: u64, length: u64) -> Node {
    let hash: [u8; 32] = kani::any();
    Node::new(index, hash.to_vec(), length)
}

// -------------------------------------------------------------------------- C01/C06 entry codec

/// clear entry (bitfield only): every drop/start/length.
#[kani::proof]
#[kani::stub(std::fmt::format, stub_format)]
#[kani::stub(std::string::String::from_utf8, stub_from_utf8)]
fn c01_entry_clear() {
    let bf = (kani::any(), kani::any(), kani::any());
    let e = mk_entry(vec![], None, Some(bf));
    let mut r = W::<24>::new();
    ref_entry(&mut r, &RefEntry { nodes: &[], upgrade: None, bitfield: Some(bf) });
    check_entry(&e, &r);
}

/// append entry: nodes + upgrade + bitfield (all three sections).
#[kani::proof]
#[kani::stub(std::fmt::format, stub_format)]
#[kani::stub(std::string::String::from_utf8, stub_from_utf8)]
fn c01_entry_append() {
    let nodes = vec![fw_node(4, 0xfd), fw_node(5, 0x1_0000)];
    let sig: [u8; 64] = kani::any();
    let up = (0u64, 2u64, 3u64, sig);
    let bf = (false, 2u64, 1u64);
    let e = mk_entry(nodes.clone(), Some(up), Some(bf));
    let mut r = W::<176>::new();
    ref_entry(&mut r, &RefEntry { nodes: &nodes, upgrade: Some((0, 2, 3, &sig)), bitfield: Some(bf) });
    check_entry(&e, &r);
}

/// block-only proof application on a replica: nodes + bitfield, no upgrade.
#[kani::proof]
#[kani::stub(std::fmt::format, stub_format)]
#[kani::stub(std::string::String::from_utf8, stub_from_utf8)]
fn c01_entry_block_only() {
    let nodes = vec![fw_node(8, 3), fw_node(10, 0xfc)];
    let bf = (false, 4u64, 1u64);
    let e = mk_entry(nodes.clone(), None, Some(bf));
    let mut r = W::<96>::new();
    ref_entry(&mut r, &RefEntry { nodes: &nodes, upgrade: None, bitfield: Some(bf) });
    check_entry(&e, &r);
}

/// upgrade-only proof application: upgrade (+ nodes), no bitfield.
#[kani::proof]
#[kani::stub(std::fmt::format, stub_format)]
#[kani::stub(std::string::String::from_utf8, stub_from_utf8)]
fn c01_entry_upgrade_nodes() {
    let nodes = vec![fw_node(1, 7)];
    let sig: [u8; 64] = kani::any();
    let e = mk_entry(nodes.clone(), Some((1, 0xfd, 0x1_0000, sig)), None);
    let mut r = W::<128>::new();
    ref_entry(&mut r, &RefEntry { nodes: &nodes, upgrade: Some((1, 0xfd, 0x1_0000, &sig)), bitfield: None });
    check_entry(&e, &r);
}

#[kani::proof]
#[kani::stub(std::fmt::format, stub_format)]
#[kani::stub(std::string::String::from_utf8, stub_from_utf8)]
fn c01_entry_upgrade_only() {
    let sig: [u8; 64] = kani::any();
    let e = mk_entry(vec![], Some((0xffff_ffff, 0x1_0000_0000, u64::MAX, sig)), None);
    let mut r = W::<96>::new();
    ref_entry(&mut r, &RefEntry { nodes: &[], upgrade: Some((0xffff_ffff, 0x1_0000_0000, u64::MAX, &sig)), bitfield: None });
    check_entry(&e, &r);
}

/// upgrade scalars full-range symbolic, encode side (decode would read the signature length from a
/// symbolic position: symbolic-size allocation, out of reach); bitfield scalars symbolic too.
#[kani::proof]
#[kani::stub(std::fmt::format, stub_format)]
#[kani::stub(std::string::String::from_utf8, stub_from_utf8)]
fn c01_entry_upgrade_scalars_encode() {
    let sig: [u8; 64] = kani::any();
    let (fork, anc, len): (u64, u64, u64) = (kani::any(), kani::any(), kani::any());
    let e = mk_entry(vec![], Some((fork, anc, len, sig)), None);
    let mut r = W::<96>::new();
    ref_entry(&mut r, &RefEntry { nodes: &[], upgrade: Some((fork, anc, len, &sig)), bitfield: None });
    let n = e.encoded_size().unwrap();
    assert!(n == r.pos);
    let mut buf = [0u8; 96];
    let left = e.encode(&mut buf).unwrap().len();
    assert!(left == 96 - n);
    let j: usize = kani::any();
    kani::assume(j < 96);
    assert!(buf[j] == r.buf[j]);
    kani::cover!(true, "reached end");
}

