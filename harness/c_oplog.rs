//! Child module of `hypercore::oplog` (attached by the overlay): sees `Oplog`'s private items.
//! C01/C06: entry + header codecs (replay path) vs the reference layout;
//! C02/C06/C07: `Oplog::open` on images built from the crate's own `StoreInfo`s and from the
//! reference encoder, with crash / torn-write cut points.
#![allow(unused_imports, dead_code, future_incompatible, rust_2018_idioms, unsafe_code, missing_docs, missing_debug_implementations, unreachable_pub, clippy::all)]
use super::entry::{Entry, EntryTreeUpgrade};
use super::header::{Header, HeaderTree};
use super::*;
use crate::common::{BitfieldUpdate, Store, StoreInfo, StoreInfoType};
use crate::crypto::PartialKeypair;
use crate::verif::ref_codec::{crc32_bitwise, W};
use crate::verif::util::*;
use crate::Node;
use compact_encoding::CompactEncoding;
use ed25519_dalek::SigningKey;
use futures::future::Either;

// ------------------------------------------------------------------------------------ reference

/// Reference entry layout (JS `oplog.entry`): flags byte (1 userData, 2 treeNodes, 4 treeUpgrade,
/// 8 bitfield) followed by the present sections in that order.
pub(crate) struct RefEntry<'a> {
    pub nodes: &'a [Node],
    pub upgrade: Option<(u64, u64, u64, &'a [u8])>, // fork, ancestors, length, signature
    pub bitfield: Option<(bool, u64, u64)>,          // drop, start, length
    /// == bitfield.is_some(), kept separately: `Option<(bool, ..)>` uses the bool's niche as its
    /// discriminant, so with a symbolic `drop` CBMC cannot fold `is_some()` and the flags byte (and
    /// with it every decoder branch) would become symbolic
    pub bf_present: bool,
}

pub(crate) fn ref_entry<const C: usize>(w: &mut W<C>, e: &RefEntry<'_>) {
    let mut flags = 0u8;
    if !e.nodes.is_empty() {
        flags |= 2;
    }
    if e.upgrade.is_some() {
        flags |= 4;
    }
    if e.bf_present {
        flags |= 8;
    }
    w.u8(flags);
    if !e.nodes.is_empty() {
        w.uint(e.nodes.len() as u64);
        let mut i = 0;
        while i < e.nodes.len() {
            w.node(e.nodes[i].index, e.nodes[i].length, &hash32(&e.nodes[i]));
            i += 1;
        }
    }
    if let Some((fork, anc, len, sig)) = e.upgrade {
        w.uint(fork);
        w.uint(anc);
        w.uint(len);
        w.bytes(sig);
    }
    if e.bf_present {
        let (drop, start, len) = e.bitfield.unwrap();
        w.u8(if drop { 1 } else { 0 });
        w.uint(start);
        w.uint(len);
    }
}

fn mk_entry(nodes: Vec<Node>, upgrade: Option<(u64, u64, u64, [u8; 64])>, bitfield: Option<(bool, u64, u64)>) -> Entry {
    Entry {
        user_data: vec![],
        tree_nodes: nodes,
        tree_upgrade: upgrade.map(|(fork, ancestors, length, sig)| EntryTreeUpgrade {
            fork,
            ancestors,
            length,
            signature: sig.to_vec().into_boxed_slice(),
        }),
        bitfield: bitfield.map(|(drop, start, length)| BitfieldUpdate { drop, start, length }),
    }
}

fn entry_eq(a: &Entry, b: &Entry) -> bool {
    let up = match (&a.tree_upgrade, &b.tree_upgrade) {
        (None, None) => true,
        (Some(x), Some(y)) => {
            x.fork == y.fork && x.ancestors == y.ancestors && x.length == y.length && x.signature == y.signature
        }
        _ => false,
    };
    a.user_data.is_empty() && b.user_data.is_empty() && nodes_eq(&a.tree_nodes, &b.tree_nodes) && up && a.bitfield == b.bitfield
}

/// size == reference size, bytes == reference bytes, decode(bytes) == entry with nothing left.
fn check_entry<const C: usize>(e: &Entry, r: &W<C>) {
    let n = e.encoded_size().unwrap();
    assert!(n == r.pos);
    let mut buf = [0u8; C];
    let left = e.encode(&mut buf).unwrap().len();
    assert!(left == C - n);
    let j: usize = kani::any();
    kani::assume(j < C);
    assert!(buf[j] == r.buf[j]);
    // the replay path: what `Oplog::open` does with the stored bytes.  Decoding the reference
    // buffer is equivalent (bytes were just shown equal) and keeps constants propagating: the
    // reference writes by direct indexing, the crate through memcpy, which CBMC does not split
    // into per-byte constants.
    // (slice by r.pos, a constant for CBMC; `n` computed by the crate is not constant-folded)
    let (d, rest) = Entry::decode(&r.buf[..r.pos]).unwrap();
    assert!(rest.is_empty());
    assert!(entry_eq(&d, e));
    kani::cover!(true, "reached end");
}

fn fw_node(index: u64, length: u64) -> Node {
    let hash: [u8; 32] = kani::any();
    Node::new(index, hash.to_vec(), length)
}

// -------------------------------------------------------------------------- C01/C06 entry codec

/// clear entry (bitfield only), encode side: every drop/start/length (full u64 range).
#[kani::proof]
#[kani::stub(std::fmt::format, stub_format)]
#[kani::stub(std::string::String::from_utf8, stub_from_utf8)]
fn c01_entry_clear_encode() {
    let bf = (kani::any(), kani::any(), kani::any());
    let e = mk_entry(vec![], None, Some(bf));
    let mut r = W::<24>::new();
    ref_entry(&mut r, &RefEntry { nodes: &[], upgrade: None, bf_present: true, bitfield: Some(bf) });
    let n = e.encoded_size().unwrap();
    assert!(n == r.pos);
    let mut buf = [0u8; 24];
    let left = e.encode(&mut buf).unwrap().len();
    assert!(left == 24 - n);
    let j: usize = kani::any();
    kani::assume(j < 24);
    assert!(buf[j] == r.buf[j]);
    kani::cover!(true, "reached end");
}

/// clear entry, full round trip with everything symbolic (drop, start, length full range).
#[kani::proof]
#[kani::stub(std::fmt::format, stub_format)]
#[kani::stub(std::string::String::from_utf8, stub_from_utf8)]
fn c01_entry_clear_sym() {
    let bf = (kani::any(), kani::any(), kani::any());
    let e = mk_entry(vec![], None, Some(bf));
    let mut r = W::<24>::new();
    ref_entry(&mut r, &RefEntry { nodes: &[], upgrade: None, bf_present: true, bitfield: Some(bf) });
    check_entry(&e, &r);
}

/// clear entry, full round trip incl. the replay decode: drop symbolic, start/length on varint
/// class boundaries (one pair per instance; symbolic widths on the decode side run out of memory).
fn entry_clear_roundtrip<const START: u64, const LEN: u64>() {
    let bf = (kani::any(), START, LEN);
    let e = mk_entry(vec![], None, Some(bf));
    let mut r = W::<24>::new();
    ref_entry(&mut r, &RefEntry { nodes: &[], upgrade: None, bf_present: true, bitfield: Some(bf) });
    check_entry(&e, &r);
}
macro_rules! clear_rt {
    ($name:ident, $s:expr, $l:expr) => {
        #[kani::proof]
        #[kani::stub(std::fmt::format, stub_format)]
        #[kani::stub(std::string::String::from_utf8, stub_from_utf8)]
        fn $name() {
            entry_clear_roundtrip::<{ $s }, { $l }>();
        }
    };
}
clear_rt!(c01_entry_clear_rt_small, 0, 1);
clear_rt!(c01_entry_clear_rt_fc_fd, 0xfc, 0xfd);
clear_rt!(c01_entry_clear_rt_16_32, 0xffff, 0x1_0000);
clear_rt!(c01_entry_clear_rt_32_64, 0xffff_ffff, 0x1_0000_0000);
clear_rt!(c01_entry_clear_rt_max, u64::MAX, 5);

/// append entry: nodes + upgrade + bitfield (all three sections).
#[kani::proof]
#[kani::stub(std::fmt::format, stub_format)]
#[kani::stub(std::string::String::from_utf8, stub_from_utf8)]
fn c01_entry_append() {
    let nodes = vec![fw_node(4, 0xfd), fw_node(5, 0x1_0000)];
    let sig: [u8; 64] = kani::any();
    let up = (0u64, 2u64, 3u64, sig);
    let bf = (false, 2u64, 1u64);
    let e = mk_entry(nodes.clone(), Some(up), Some(bf));
    let mut r = W::<176>::new();
    ref_entry(&mut r, &RefEntry { nodes: &nodes, upgrade: Some((0, 2, 3, &sig)), bf_present: true, bitfield: Some(bf) });
    check_entry(&e, &r);
}

/// block-only proof application on a replica: nodes + bitfield, no upgrade.
#[kani::proof]
#[kani::stub(std::fmt::format, stub_format)]
#[kani::stub(std::string::String::from_utf8, stub_from_utf8)]
fn c01_entry_block_only() {
    let nodes = vec![fw_node(8, 3), fw_node(10, 0xfc)];
    let bf = (false, 4u64, 1u64);
    let e = mk_entry(nodes.clone(), None, Some(bf));
    let mut r = W::<96>::new();
    ref_entry(&mut r, &RefEntry { nodes: &nodes, upgrade: None, bf_present: true, bitfield: Some(bf) });
    check_entry(&e, &r);
}

/// upgrade-only proof application: upgrade (+ nodes), no bitfield.
#[kani::proof]
#[kani::stub(std::fmt::format, stub_format)]
#[kani::stub(std::string::String::from_utf8, stub_from_utf8)]
fn c01_entry_upgrade_nodes() {
    let nodes = vec![fw_node(1, 7)];
    let sig: [u8; 64] = kani::any();
    let e = mk_entry(nodes.clone(), Some((1, 0xfd, 0x1_0000, sig)), None);
    let mut r = W::<128>::new();
    ref_entry(&mut r, &RefEntry { nodes: &nodes, upgrade: Some((1, 0xfd, 0x1_0000, &sig)), bf_present: false, bitfield: None });
    check_entry(&e, &r);
}

#[kani::proof]
#[kani::stub(std::fmt::format, stub_format)]
#[kani::stub(std::string::String::from_utf8, stub_from_utf8)]
fn c01_entry_upgrade_only() {
    let sig: [u8; 64] = kani::any();
    let e = mk_entry(vec![], Some((0xffff_ffff, 0x1_0000_0000, u64::MAX, sig)), None);
    let mut r = W::<96>::new();
    ref_entry(&mut r, &RefEntry { nodes: &[], upgrade: Some((0xffff_ffff, 0x1_0000_0000, u64::MAX, &sig)), bf_present: false, bitfield: None });
    check_entry(&e, &r);
}

/// upgrade scalars full-range symbolic, encode side (decode would read the signature length from a
/// symbolic position: symbolic-size allocation, out of reach); bitfield scalars symbolic too.
#[kani::proof]
#[kani::stub(std::fmt::format, stub_format)]
#[kani::stub(std::string::String::from_utf8, stub_from_utf8)]
fn c01_entry_upgrade_scalars_encode() {
    let sig: [u8; 64] = kani::any();
    let (fork, anc, len): (u64, u64, u64) = (kani::any(), kani::any(), kani::any());
    let e = mk_entry(vec![], Some((fork, anc, len, sig)), None);
    let mut r = W::<96>::new();
    ref_entry(&mut r, &RefEntry { nodes: &[], upgrade: Some((fork, anc, len, &sig)), bf_present: false, bitfield: None });
    let n = e.encoded_size().unwrap();
    assert!(n == r.pos);
    let mut buf = [0u8; 96];
    let left = e.encode(&mut buf).unwrap().len();
    assert!(left == 96 - n);
    let j: usize = kani::any();
    kani::assume(j < 96);
    assert!(buf[j] == r.buf[j]);
    kani::cover!(true, "reached end");
}


// =============================================================================================
// Reference header / leader / oplog image (JS `hypercore/lib/oplog.js` + `messages.js` layout)
// =============================================================================================

pub(crate) const DEFAULT_NAMESPACE: [u8; 32] = [
    0x41, 0x44, 0xEE, 0xA5, 0x31, 0xE4, 0x83, 0xD5, 0x4E, 0x0C, 0x14, 0xF4, 0xCA, 0x68, 0xE0, 0x64,
    0x4F, 0x35, 0x53, 0x43, 0xFF, 0x6F, 0xCB, 0x0F, 0x00, 0x52, 0x00, 0xE1, 0x2C, 0xD7, 0x47, 0xCB,
];

/// What a header means, independent of the crate's `Header` struct.
#[derive(Clone, Copy)]
pub(crate) struct RefHeader {
    pub public: [u8; 32],
    pub secret: Option<[u8; 32]>,
    pub fork: u64,
    pub length: u64,
    /// (root hash, signature) present iff the tree has been upgraded at least once
    pub signed: Option<([u8; 32], [u8; 64])>,
    pub contiguous_length: u64,
}

/// header payload: version 1, flags (manifest|keyPair present = 2|4), key, manifest
/// {version 0, hash blake2b=0, type signer=1, signer {ed25519=0, namespace, publicKey}},
/// keyPair {publicKey buffer, secretKey buffer (sodium: secret||public, 64 bytes) or empty},
/// userData [], tree {fork, length, rootHash buffer, signature buffer}, hints {reorgs [], contiguousLength}.
pub(crate) fn ref_header<const C: usize>(w: &mut W<C>, h: &RefHeader) {
    w.u8(1);
    w.u8(2 | 4);
    w.raw(&h.public);
    w.u8(0);
    w.u8(0);
    w.u8(1);
    w.u8(0);
    w.raw(&DEFAULT_NAMESPACE);
    w.raw(&h.public);
    w.uint(32);
    w.raw(&h.public);
    match &h.secret {
        Some(sk) => {
            w.uint(64);
            w.raw(sk);
            w.raw(&h.public);
        }
        None => w.uint(0),
    }
    w.uint(0); // userData
    w.uint(h.fork);
    w.uint(h.length);
    match &h.signed {
        Some((root, sig)) => {
            w.bytes(root);
            w.bytes(sig);
        }
        None => {
            w.uint(0);
            w.uint(0);
        }
    }
    w.uint(0); // reorgs
    w.uint(h.contiguous_length);
}

/// Wrap the `n` payload bytes that were just written after `start + 8` with the 8-byte leader at
/// `start`: LE32 crc32(bytes start+4 .. start+8+n), LE32 (n << 2 | partial << 1 | header_bit).
pub(crate) fn ref_leader<const C: usize>(w: &mut W<C>, start: usize, n: usize, partial: bool, header_bit: bool) {
    let info: u32 = ((n as u32) << 2) | (if partial { 2 } else { 0 }) | (if header_bit { 1 } else { 0 });
    w.buf[start + 4] = info as u8;
    w.buf[start + 5] = (info >> 8) as u8;
    w.buf[start + 6] = (info >> 16) as u8;
    w.buf[start + 7] = (info >> 24) as u8;
    // Frames with symbolic payload bytes use the same CRC routine the crate uses (crc32fast's
    // portable code) so that both sides build the same circuit; that this routine *is* CRC-32/IEEE
    // is decided separately (c06_leader_entry, bitwise reference, small payloads).
    let crc = if n > 24 { crc32fast::hash(&w.buf[start + 4..start + 8 + n]) } else { crc32_bitwise(&w.buf[start + 4..start + 8 + n]) };
    w.buf[start] = crc as u8;
    w.buf[start + 1] = (crc >> 8) as u8;
    w.buf[start + 2] = (crc >> 16) as u8;
    w.buf[start + 3] = (crc >> 24) as u8;
}

/// Write leader + header at `at` (a slot offset). Returns the total size (8 + payload).
pub(crate) fn ref_header_at<const C: usize>(w: &mut W<C>, at: usize, h: &RefHeader, header_bit: bool) -> usize {
    w.pos = at + 8;
    ref_header(w, h);
    let n = w.pos - (at + 8);
    ref_leader(w, at, n, false, header_bit);
    8 + n
}

/// Write leader + entry at `at`. Returns the total size.
pub(crate) fn ref_entry_at<const C: usize>(w: &mut W<C>, at: usize, e: &RefEntry<'_>, partial: bool, header_bit: bool) -> usize {
    w.pos = at + 8;
    ref_entry(w, e);
    let n = w.pos - (at + 8);
    ref_leader(w, at, n, partial, header_bit);
    8 + n
}

pub(crate) fn kp_from(public: [u8; 32], secret: Option<[u8; 32]>) -> PartialKeypair {
    PartialKeypair {
        public: ed25519_dalek::VerifyingKey::from_bytes(&public).unwrap(),
        secret: secret.map(|s| SigningKey::from_bytes(&s)),
    }
}

pub(crate) fn header_matches(h: &Header, r: &RefHeader) -> bool {
    let sk_ok = match (&h.key_pair.secret, &r.secret) {
        (None, None) => true,
        (Some(a), Some(b)) => a.to_bytes() == *b,
        _ => false,
    };
    let tree_ok = match &r.signed {
        Some((root, sig)) => *h.tree.root_hash == root[..] && *h.tree.signature == sig[..],
        None => h.tree.root_hash.is_empty() && h.tree.signature.is_empty(),
    };
    h.key == r.public
        && h.key_pair.public.to_bytes() == r.public
        && h.manifest.signer.public_key == r.public
        && h.manifest.signer.namespace == DEFAULT_NAMESPACE
        && sk_ok
        && h.user_data.is_empty()
        && h.tree.fork == r.fork
        && h.tree.length == r.length
        && tree_ok
        && h.hints.reorgs.is_empty()
        && h.hints.contiguous_length == r.contiguous_length
}

// ------------------------------------------------------------------------ C06 leader / CRC

/// Leader framing of the real code (`encode_with_leader`, real `crc32fast`) against the reference
/// (bitwise CRC-32): a clear entry with symbolic fields (up to 19 payload bytes), both bits.
#[kani::proof]
#[kani::stub(std::fmt::format, stub_format)]
#[kani::stub(std::string::String::from_utf8, stub_from_utf8)]
fn c06_leader_entry() {
    let (s8, l8): (u8, u8) = (kani::any(), kani::any());
    kani::assume(s8 < 0xfd && l8 < 0xfd);
    let bf = (kani::any(), s8 as u64, l8 as u64);
    let e = mk_entry(vec![], None, Some(bf));
    let partial: bool = kani::any();
    let bit: bool = kani::any();
    let mut buf = [0u8; 32];
    let left = encode_with_leader(&e, partial, bit, &mut buf).unwrap().len();
    let mut r = W::<32>::new();
    let total = ref_entry_at(&mut r, 0, &RefEntry { nodes: &[], upgrade: None, bf_present: true, bitfield: Some(bf) }, partial, bit);
    assert!(left == 32 - total);
    let j: usize = kani::any();
    kani::assume(j < 32);
    assert!(buf[j] == r.buf[j]);
    // and the reader side
    let out = Oplog::validate_leader(&r.buf[..total]).unwrap().unwrap();
    assert!(out.header_bit == bit && out.partial_bit == partial);
    assert!(out.state.len() == total - 8);
    kani::cover!(true, "reached end");
}

// ------------------------------------------------------------------------- Oplog::open harnesses

pub(crate) const PK: [u8; 32] = [3u8; 32];
pub(crate) const SK: [u8; 32] = [7u8; 32];

pub(crate) fn base_header(length: u64) -> RefHeader {
    RefHeader {
        public: PK,
        secret: Some(SK),
        fork: 0,
        length,
        signed: if length > 0 { Some(([length as u8 + 1; 32], [length as u8 + 2; 64])) } else { None },
        contiguous_length: length,
    }
}

/// Run the real `Oplog::open` on a file image of exactly N bytes.
pub(crate) fn open_image<const N: usize>(image: [u8; N], kp: &Option<PartialKeypair>) -> Result<OplogOpenOutcome, HypercoreError> {
    let data: Box<[u8]> = Box::new(image);
    let info = StoreInfo {
        store: Store::Oplog,
        info_type: StoreInfoType::Content,
        index: 0,
        length: Some(N as u64),
        data: Some(data),
        miss: false,
    };
    match Oplog::open(kp, Some(info))? {
        Either::Right(o) => Ok(o),
        Either::Left(_) => unreachable!(),
    }
}

fn sym_patch(h: &mut RefHeader) {
    if let Some((root, sig)) = &mut h.signed {
        let r: [u8; 4] = kani::any();
        let s: [u8; 4] = kani::any();
        root[5] = r[0];
        root[6] = r[1];
        root[30] = r[2];
        root[31] = r[3];
        sig[0] = s[0];
        sig[1] = s[1];
        sig[62] = s[2];
        sig[63] = s[3];
    }
}

/// C06-U3: which slot wins.  JS rule: both slots valid -> equal header bits => slot 0 is newer,
/// different => slot 1 is newer; one valid slot -> that one.  Slot presence and bits are concrete
/// per instance (a symbolic choice would make every image byte an if-then-else and all decoded
/// lengths symbolic); some root-hash and signature bytes are symbolic.
fn open_slots<const P1: bool, const P2: bool, const B1: bool, const B2: bool>() {
    let mut w = W::<8192>::new();
    // The images are fully concrete: measured, even 8 symbolic payload bytes inside a CRC-framed
    // header (two table-driven CRC circuits over symbolic bytes) exhaust 9 GB.  What the model
    // checker adds here over a unit test is exhaustive configuration coverage plus its panic /
    // overflow / bounds / termination checks on the real open path.
    let (h1, h2) = (base_header(1), base_header(2));
    if P1 {
        ref_header_at(&mut w, 0, &h1, B1);
    }
    if P2 {
        ref_header_at(&mut w, 4096, &h2, B2);
    }
    let out = open_image(w.buf, &None).unwrap();
    let expect = if P1 && P2 {
        if B1 == B2 { h1 } else { h2 }
    } else if P1 {
        h1
    } else {
        h2
    };
    assert!(header_matches(&out.header, &expect));
    assert!(out.infos_to_flush.is_empty());
    assert!(out.entries.is_none());
    // the header-bit state the JS rule derives: both slots -> their bits; only slot 0 -> [b, b]
    // (slot 0 current, entries carry bit 0); only slot 1 -> [!b, b] (slot 1 current, entries carry
    // bit 1).  It decides which pending entries are replayed and which slot the next flush rewrites.
    let bits = if P1 && P2 { [B1, B2] } else if P1 { [B1, B1] } else { [!B2, B2] };
    assert!(out.oplog.header_bits[0] == bits[0] && out.oplog.header_bits[1] == bits[1]);
    kani::cover!(true, "reached end");
    std::mem::forget(out);
}
macro_rules! slots {
    ($name:ident, $p1:expr, $p2:expr, $b1:expr, $b2:expr) => {
        #[kani::proof]
        #[kani::stub(std::fmt::format, stub_format)]
        #[kani::stub(std::string::String::from_utf8, stub_from_utf8)]
        fn $name() {
            open_slots::<$p1, $p2, $b1, $b2>();
        }
    };
}
slots!(c06_open_slot0_only, true, false, true, false);
slots!(c06_open_slot1_only, false, true, false, false);
slots!(c06_open_both_tt, true, true, true, true);
slots!(c06_open_both_tf, true, true, true, false);
slots!(c06_open_both_ft, true, true, false, true);
slots!(c06_open_both_ff, true, true, false, false);


// ---------------------------------------------------------------- entries after the header (C02/C06)

fn cnode(index: u64, length: u64, fill: u8) -> Node {
    Node::new(index, vec![fill; 32], length)
}

/// The two entry shapes used in images: an append of block 1 (nodes 2,1 + upgrade + bitfield) and a
/// clear of block 0.
fn sample_append() -> (Vec<Node>, (u64, u64, u64, [u8; 64]), (bool, u64, u64)) {
    (vec![cnode(2, 3, 0x21), cnode(1, 7, 0x22)], (0, 1, 2, [0x33u8; 64]), (false, 1, 1))
}

/// Layout of an image: header (length 1) in slot 0 with bit false, slot 1 empty => header_bits
/// [false,false] => the entries that belong to this header carry bit false.
/// ENTRIES: list of (kind, header_bit, partial) with kind 0 = append, 1 = clear; TAIL = number of
/// 0xAA garbage bytes after the last entry.
struct EntrySpec {
    kind: u8,
    /// false = the entry belongs to the current header generation (JS: entry.header == current
    /// slot), true = it carries the other bit (stale, written before the last header flush)
    bit: bool,
    partial: bool,
}

fn build_entries<const N: usize>(w: &mut W<N>, specs: &[EntrySpec], sizes: &mut [usize; 4], current: bool) -> usize {
    let mut at = 8192;
    let mut i = 0;
    while i < specs.len() {
        let sz = if specs[i].kind == 0 {
            let (nodes, up, bf) = sample_append();
            ref_entry_at(w, at, &RefEntry { nodes: &nodes, upgrade: Some((up.0, up.1, up.2, &up.3)), bf_present: true, bitfield: Some(bf) }, specs[i].partial, specs[i].bit != current)
        } else {
            ref_entry_at(w, at, &RefEntry { nodes: &[], upgrade: None, bf_present: true, bitfield: Some((true, 0, 1)) }, specs[i].partial, specs[i].bit != current)
        };
        sizes[i] = sz;
        at += sz;
        i += 1;
    }
    at
}

fn expect_entry(e: &Entry, kind: u8) -> bool {
    if kind == 0 {
        let (nodes, up, bf) = sample_append();
        entry_eq(e, &mk_entry(nodes, Some(up), Some(bf)))
    } else {
        entry_eq(e, &mk_entry(vec![], None, Some((true, 0, 1))))
    }
}

/// Open an image with the given entries; `accepted` = how many leading entries must be returned.
/// Also checks that the oplog continues *after* the accepted entries: the next entry it writes is
/// placed at 8192 + (bytes of the accepted entries) and carries the current header bit.
fn open_entries<const N: usize>(specs: &[EntrySpec], tail: usize, accepted: usize) {
    open_entries_phase::<N, 0>(specs, tail, accepted)
}

/// PHASE selects the header-bit phase of the two slots (the bits cycle [F,F] -> [F,T] -> [T,T] ->
/// [T,F] with every header flush): 0 = slot 0 only, bit F; 1 = [T,T]; 2 = [T,F]; 3 = [F,T];
/// 4 = [F,F] with both slots.  Equal bits: slot 0 is the newest header and current entries carry
/// bit 0; different bits: slot 1 is the newest and current entries carry bit 1.
fn open_entries_phase<const N: usize, const PHASE: u8>(specs: &[EntrySpec], tail: usize, accepted: usize) {
    let mut w = W::<N>::new();
    let (b0, b1, both) = match PHASE {
        0 => (false, false, false),
        1 => (true, true, true),
        2 => (true, false, true),
        3 => (false, true, true),
        5 => (false, true, false), // slot 0 torn, slot 1 valid with bit 1
        6 => (true, false, false), // slot 0 torn, slot 1 valid with bit 0
        _ => (false, false, true),
    };
    let torn0 = PHASE == 5 || PHASE == 6;
    let current = torn0 || (both && b0 != b1);
    if torn0 {
        // a header write into slot 0 that stopped after 60 bytes (checksum cannot match), slot 1
        // holds the valid header: the JS rule makes slot 1 the current one, entries carry bit 1
        ref_header_at(&mut w, 0, &base_header(0), b0);
        torn_header_zero(&mut w.buf, 60, 300);
        ref_header_at(&mut w, 4096, &base_header(1), b1);
    } else if !both {
        ref_header_at(&mut w, 0, &base_header(1), b0);
    } else if b0 == b1 {
        ref_header_at(&mut w, 0, &base_header(1), b0);
        ref_header_at(&mut w, 4096, &base_header(0), b1);
    } else {
        ref_header_at(&mut w, 0, &base_header(0), b0);
        ref_header_at(&mut w, 4096, &base_header(1), b1);
    }
    let mut sizes = [0usize; 4];
    let end = build_entries(&mut w, specs, &mut sizes, current);
    let mut t = 0;
    while t < tail {
        w.buf[end + t] = 0xAA;
        t += 1;
    }
    assert!(end + tail == N);
    let mut out = open_image(w.buf, &None).unwrap();
    assert!(header_matches(&out.header, &base_header(1)));
    let entries = out.entries.take().unwrap_or_default();
    assert!(entries.len() == accepted);
    let mut i = 0;
    let mut bytes = 0usize;
    while i < accepted {
        assert!(expect_entry(&entries[i], specs[i].kind));
        bytes += sizes[i];
        i += 1;
    }
    // where does the next entry go, and with which bit?
    let infos = out.oplog.clear(5, 6).unwrap();
    assert!(infos.len() == 1);
    assert!(infos[0].index == 8192 + bytes as u64);
    let d = infos[0].data.as_ref().unwrap();
    assert!((d[4] & 1 == 1) == current); // new entries carry the current header bit
    assert!(out.oplog.entries_length == accepted as u64 + 1);
    kani::cover!(true, "reached end");
    std::mem::forget(entries);
    std::mem::forget(out);
}

fn torn_header_zero(buf: &mut [u8], from: usize, to: usize) {
    let mut z = from;
    while z < to {
        buf[z] = 0;
        z += 1;
    }
}

macro_rules! entries_harness {
    ($name:ident, $n:expr, $specs:expr, $tail:expr, $acc:expr) => {
        #[kani::proof]
        #[kani::stub(std::fmt::format, stub_format)]
        #[kani::stub(std::string::String::from_utf8, stub_from_utf8)]
        fn $name() {
            open_entries::<$n>(&$specs, $tail, $acc);
        }
    };
}
const A_SZ: usize = 8 + 1 + 1 + 2 * 34 + 3 + 65 + 3; // append entry frame: 149 bytes
const C_SZ: usize = 8 + 1 + 3; // clear entry frame: 12 bytes
entries_harness!(c02_open_one_append, { 8192 + A_SZ }, [EntrySpec { kind: 0, bit: false, partial: false }], 0, 1);
entries_harness!(c02_open_append_clear, { 8192 + A_SZ + C_SZ }, [EntrySpec { kind: 0, bit: false, partial: false }, EntrySpec { kind: 1, bit: false, partial: false }], 0, 2);
entries_harness!(c02_open_garbage_tail, { 8192 + C_SZ + 5 }, [EntrySpec { kind: 1, bit: false, partial: false }], 5, 1);
// entries written under the previous header (other bit) that a crash left behind after the
// header switch must be ignored, and so must everything after them
entries_harness!(c02_open_stale_entry, { 8192 + C_SZ }, [EntrySpec { kind: 1, bit: true, partial: false }], 0, 0);
entries_harness!(c02_open_valid_then_stale, { 8192 + C_SZ + A_SZ }, [EntrySpec { kind: 1, bit: false, partial: false }, EntrySpec { kind: 0, bit: true, partial: false }], 0, 1);
// JS atomic batches: trailing entries flagged partial belong to an unfinished batch and are dropped
entries_harness!(c06_open_trailing_partial, { 8192 + C_SZ + C_SZ }, [EntrySpec { kind: 1, bit: false, partial: false }, EntrySpec { kind: 1, bit: false, partial: true }], 0, 1);
entries_harness!(c06_open_only_partial, { 8192 + C_SZ }, [EntrySpec { kind: 1, bit: false, partial: true }], 0, 0);
// the same recovery question in the other header-bit phases (after 2, 3, 4 header flushes)
macro_rules! entries_phase_harness {
    ($name:ident, $phase:expr) => {
        #[kani::proof]
        #[kani::stub(std::fmt::format, stub_format)]
        #[kani::stub(std::string::String::from_utf8, stub_from_utf8)]
        fn $name() {
            open_entries_phase::<{ 8192 + 2 * C_SZ }, $phase>(
                &[EntrySpec { kind: 1, bit: false, partial: false }, EntrySpec { kind: 1, bit: true, partial: false }], 0, 1);
        }
    };
}
entries_phase_harness!(c02_open_phase_tt, 1);
entries_phase_harness!(c02_open_phase_tf, 2);
entries_phase_harness!(c02_open_phase_ft, 3);
entries_phase_harness!(c02_open_phase_ff_both, 4);
// the header write into slot 0 was torn, slot 1 holds the valid header: slot 1 is current, the
// pending entry carrying bit 1 is replayed, the stale one dropped, the log continues with bit 1
entries_phase_harness!(c07_open_slot0_torn_slot1_bit1, 5);
entries_phase_harness!(c07_open_slot0_torn_slot1_bit0, 6);
// a finished batch: partial, partial, final -> all three kept
entries_harness!(c06_open_finished_batch, { 8192 + 3 * C_SZ }, [EntrySpec { kind: 1, bit: false, partial: true }, EntrySpec { kind: 1, bit: false, partial: true }, EntrySpec { kind: 1, bit: false, partial: false }], 0, 3);

// ------------------------------------------------------------------------------ C07 torn writes

/// A header flush that was torn: slot 0 holds the valid current header (length 1, bit false); the
/// flush of the next header (length 2, bit true -> slot 1) wrote only its first K bytes over a slot
/// that held either zeros (OLD = false) or the previous, older header (OLD = true).
/// Reopening must succeed and fall back to slot 0.
fn torn_header<const K: usize, const OLD: bool>() {
    let mut w = W::<8192>::new();
    ref_header_at(&mut w, 0, &base_header(1), false);
    if OLD {
        // what slot 1 held before: the header flushed two generations ago (length 0, bit false)
        ref_header_at(&mut w, 4096, &base_header(0), false);
    }
    // the new frame, built aside, then only K bytes of it reach the store
    let mut n = W::<512>::new();
    let total = ref_header_at(&mut n, 0, &base_header(2), true);
    assert!(K < total);
    let mut i = 0;
    while i < K {
        w.buf[4096 + i] = n.buf[i];
        i += 1;
    }
    let out = open_image(w.buf, &None);
    assert!(out.is_ok());
    let out = out.unwrap();
    assert!(header_matches(&out.header, &base_header(1)));
    kani::cover!(true, "reached end");
    std::mem::forget(out);
}
macro_rules! torn_header_harness {
    ($name:ident, $k:expr, $old:expr) => {
        #[kani::proof]
        #[kani::stub(std::fmt::format, stub_format)]
        #[kani::stub(std::string::String::from_utf8, stub_from_utf8)]
        fn $name() {
            torn_header::<$k, $old>();
        }
    };
}
torn_header_harness!(c07_torn_header_k1, 1, false);
torn_header_harness!(c07_torn_header_k6, 6, false);
torn_header_harness!(c07_torn_header_k8, 8, false);
torn_header_harness!(c07_torn_header_k9, 9, false);
torn_header_harness!(c07_torn_header_k100, 100, false);
torn_header_harness!(c07_torn_header_k270, 270, false);
torn_header_harness!(c07_torn_header_over_old_k8, 8, true);
torn_header_harness!(c07_torn_header_over_old_k60, 60, true);
torn_header_harness!(c07_torn_header_over_old_k150, 150, true);

/// A torn entry append.  STALE = false: the file simply ends after K bytes of the new entry.
/// STALE = true: the bytes after the cut belong to an older (previous header bit) entry that a
/// crash between header write and truncate left behind.  Either way the torn entry is ignored and
/// the pending list is what it was before the call (one clear entry).
fn torn_entry<const K: usize, const STALE: bool, const N: usize>() {
    let mut w = W::<N>::new();
    ref_header_at(&mut w, 0, &base_header(1), false);
    let first = ref_entry_at(&mut w, 8192, &RefEntry { nodes: &[], upgrade: None, bf_present: true, bitfield: Some((true, 0, 1)) }, false, false);
    let at = 8192 + first;
    if STALE {
        // same shape and size as the new entry but different content (other hashes / signature)
        let nodes = vec![cnode(2, 3, 0x55), cnode(1, 7, 0x56)];
        ref_entry_at(&mut w, at, &RefEntry { nodes: &nodes, upgrade: Some((0, 1, 2, &[0x66u8; 64])), bf_present: true, bitfield: Some((false, 1, 9)) }, false, true);
    }
    let mut n = W::<256>::new();
    let (nodes, up, bf) = sample_append();
    let total = ref_entry_at(&mut n, 0, &RefEntry { nodes: &nodes, upgrade: Some((up.0, up.1, up.2, &up.3)), bf_present: true, bitfield: Some(bf) }, false, false);
    assert!(K < total);
    let mut i = 0;
    while i < K {
        w.buf[at + i] = n.buf[i];
        i += 1;
    }
    assert!(if STALE { N == at + A_SZ } else { N == at + K });
    let out = open_image(w.buf, &None);
    assert!(out.is_ok());
    let mut out = out.unwrap();
    let entries = out.entries.take().unwrap_or_default();
    assert!(entries.len() == 1);
    assert!(expect_entry(&entries[0], 1));
    assert!(out.oplog.entries_byte_length == first as u64);
    kani::cover!(true, "reached end");
    std::mem::forget(entries);
    std::mem::forget(out);
}
macro_rules! torn_entry_harness {
    ($name:ident, $k:expr, $stale:expr, $n:expr) => {
        #[kani::proof]
        #[kani::stub(std::fmt::format, stub_format)]
        #[kani::stub(std::string::String::from_utf8, stub_from_utf8)]
        fn $name() {
            torn_entry::<$k, $stale, { $n }>();
        }
    };
}
torn_entry_harness!(c07_torn_entry_end_k3, 3, false, 8192 + C_SZ + 3);
torn_entry_harness!(c07_torn_entry_end_k8, 8, false, 8192 + C_SZ + 8);
torn_entry_harness!(c07_torn_entry_end_k9, 9, false, 8192 + C_SZ + 9);
torn_entry_harness!(c07_torn_entry_end_k148, 148, false, 8192 + C_SZ + 148);
torn_entry_harness!(c07_torn_entry_over_stale_k8, 8, true, 8192 + C_SZ + A_SZ);
torn_entry_harness!(c07_torn_entry_over_stale_k40, 40, true, 8192 + C_SZ + A_SZ);
torn_entry_harness!(c07_torn_entry_over_stale_k148, 148, true, 8192 + C_SZ + A_SZ);

// ------------------------------------------------------------------------------ C12 secret hygiene

fn header_from_ref(r: &RefHeader) -> Header {
    let mut h = Header::new(kp_from(r.public, r.secret));
    h.tree.fork = r.fork;
    h.tree.length = r.length;
    if let Some((root, sig)) = &r.signed {
        h.tree.root_hash = root.to_vec().into_boxed_slice();
        h.tree.signature = sig.to_vec().into_boxed_slice();
    }
    h.hints.contiguous_length = r.contiguous_length;
    h
}

/// make_read_only's oplog step: `flush(header_without_secret, clear_traces = true)`.
/// Three StoreInfos: both slots rewritten as full 4096-byte zero-padded frames (no secret in
/// either), then the entries truncated away.  Bytes are compared with the reference frame at a
/// symbolic offset; a symbolic 32-byte window is compared with the secret key.
#[kani::proof]
#[kani::stub(std::fmt::format, stub_format)]
#[kani::stub(std::string::String::from_utf8, stub_from_utf8)]
fn c12_flush_clear_traces() {
    let mut rh = base_header(2);
    let with_secret = header_from_ref(&rh);
    assert!(with_secret.key_pair.secret.is_some());
    rh.secret = None;
    let header = header_from_ref(&rh);
    let mut oplog = Oplog { header_bits: [false, false], entries_length: 2, entries_byte_length: 161 };
    let infos = oplog.flush(&header, true).unwrap();
    assert!(infos.len() == 3);
    assert!(oplog.entries_length == 0 && oplog.entries_byte_length == 0);
    // slot 1 first (bits [F,F] -> second slot, bit T), then slot 0 (bits [F,T] -> first slot, bit T)
    assert!(infos[0].index == 4096 && infos[1].index == 0);
    assert!(infos[2].info_type == StoreInfoType::Size && infos[2].miss && infos[2].index == 8192);
    let mut r = W::<4096>::new();
    ref_header_at(&mut r, 0, &rh, true);
    let which: usize = kani::any();
    kani::assume(which < 2);
    let d = infos[which].data.as_ref().unwrap();
    assert!(infos[which].store == Store::Oplog && !infos[which].miss && d.len() == 4096);
    let j: usize = kani::any();
    kani::assume(j < 4096);
    assert!(d[j] == r.buf[j]);
    // no 32-byte window of what is written equals the secret key
    let o: usize = kani::any();
    kani::assume(o <= 4096 - 32);
    let mut same = true;
    let mut i = 0;
    while i < 32 {
        if d[o + i] != SK[i] {
            same = false;
        }
        i += 1;
    }
    assert!(!same);
    // the oplog now points at slot 0 again with both bits true
    let next = oplog.clear(1, 2).unwrap();
    assert!(next[0].index == 8192 && next[0].data.as_ref().unwrap()[4] & 1 == 0);
    kani::cover!(true, "reached end");
    std::mem::forget(infos);
}

/// Crash inside that flush: after 0, 1, 2 or all 3 of its storage operations the store reopens,
/// with the same tree and hints, the same public key, and either key form (secret only while a
/// slot written before the call is still the current one).  Pre-state: both slots hold headers
/// with the secret (bits F/F, slot 0 current), one pending clear entry.
fn crash_in_make_read_only<const APPLIED: usize>() {
    const N: usize = 8192 + C_SZ;
    let mut w = W::<N>::new();
    let h_old = base_header(1);
    let h_cur = base_header(2);
    ref_header_at(&mut w, 4096, &h_old, false);
    ref_header_at(&mut w, 0, &h_cur, false);
    ref_entry_at(&mut w, 8192, &RefEntry { nodes: &[], upgrade: None, bf_present: true, bitfield: Some((true, 0, 1)) }, false, false);
    let mut ro = h_cur;
    ro.secret = None;
    if APPLIED >= 1 {
        let mut i = 4096;
        while i < 8192 {
            w.buf[i] = 0;
            i += 1;
        }
        ref_header_at(&mut w, 4096, &ro, true);
    }
    if APPLIED >= 2 {
        let mut i = 0;
        while i < 4096 {
            w.buf[i] = 0;
            i += 1;
        }
        ref_header_at(&mut w, 0, &ro, true);
    }
    let out = if APPLIED >= 3 {
        let mut t = [0u8; 8192];
        let mut i = 0;
        while i < 8192 {
            t[i] = w.buf[i];
            i += 1;
        }
        open_image(t, &None)
    } else {
        open_image(w.buf, &None)
    };
    let mut out = out.unwrap();
    let expect = if APPLIED == 0 { h_cur } else { ro };
    assert!(header_matches(&out.header, &expect));
    let entries = out.entries.take().unwrap_or_default();
    // The pending clear is replayed while the old header is current (0).  After slot 1 was
    // rewritten (1) its header bit no longer matches and it is skipped.  After both slots were
    // rewritten (2) the entry bit has flipped twice, so until the truncate lands (3) the entry is
    // replayed once more on top of the header that already contains it; replay of an entry is
    // idempotent (bitfield set/drop, tree truncate+commit to the same length), so the observable
    // state is still the "after" state -- not counted as a violation here.
    assert!(entries.len() == if APPLIED == 0 || APPLIED == 2 { 1 } else { 0 });
    kani::cover!(true, "reached end");
    std::mem::forget(entries);
    std::mem::forget(out);
}
macro_rules! crash_ro {
    ($name:ident, $k:expr) => {
        #[kani::proof]
        #[kani::stub(std::fmt::format, stub_format)]
        #[kani::stub(std::string::String::from_utf8, stub_from_utf8)]
        fn $name() {
            crash_in_make_read_only::<$k>();
        }
    };
}
crash_ro!(c12_crash_before, 0);
crash_ro!(c12_crash_after_slot1, 1);
crash_ro!(c12_crash_after_slot0, 2);
crash_ro!(c12_crash_after_truncate, 3);

// ------------------------------------------------- what the oplog *writes* for each operation

/// `Oplog::clear(start, end)`: ONE write, at 8192 + bytes already pending, framing a bitfield-only
/// entry {drop: true, start, length: end - start} (replayed on open as "drop exactly [start,end)"),
/// carrying the current header bit.  One concrete (start, end, header bits) per instance: bytes
/// under the CRC frame cannot be symbolic (DESIGN.md 10.2); the varint codec for all values is
/// covered by c01_entry_clear_*.
fn oplog_clear_entry<const START: u64, const END: u64, const B0: bool, const B1: bool>() {
    let pending: u64 = kani::any();
    kani::assume(pending < 1000);
    let mut oplog = Oplog { header_bits: [B0, B1], entries_length: 3, entries_byte_length: pending };
    let infos = oplog.clear(START, END).unwrap();
    assert!(infos.len() == 1);
    let i0 = &infos[0];
    assert!(i0.store == Store::Oplog && i0.info_type == StoreInfoType::Content && !i0.miss);
    assert!(i0.index == 8192 + pending);
    let d = i0.data.as_ref().unwrap();
    // leader: 4 CRC bytes, then len<<2 | partial<<1 | header bit; payload = flags 8, drop 1, start, length
    assert!(d.len() == 8 + 4);
    assert!(d[4] == ((4u8 << 2) | (if B0 != B1 { 1 } else { 0 })) && d[5] == 0 && d[6] == 0 && d[7] == 0);
    assert!(d[8] == 8 && d[9] == 1);
    assert!(d[10] as u64 == START);
    assert!(d[11] as u64 == END - START);
    // and it is what open replays: decode the payload back
    let (e, rest) = Entry::decode(&d[8..]).unwrap();
    assert!(rest.is_empty());
    assert!(e.bitfield == Some(BitfieldUpdate { drop: true, start: START, length: END - START }));
    assert!(e.tree_nodes.is_empty() && e.tree_upgrade.is_none());
    assert!(oplog.entries_length == 4 && oplog.entries_byte_length == pending + 12);
    kani::cover!(true, "reached end");
    std::mem::forget(infos);
    std::mem::forget(e);
}

macro_rules! clear_entry {
    ($name:ident, $s:expr, $e:expr, $b0:expr, $b1:expr) => {
        #[kani::proof]
        #[kani::stub(std::fmt::format, stub_format)]
        #[kani::stub(std::string::String::from_utf8, stub_from_utf8)]
        fn $name() {
            oplog_clear_entry::<$s, $e, $b0, $b1>();
        }
    };
}
clear_entry!(c01_oplog_clear_entry_2_4, 2, 4, false, false);
clear_entry!(c01_oplog_clear_entry_0_1, 0, 1, true, false);
clear_entry!(c01_oplog_clear_entry_100_252, 100, 252, false, true);

/// `Oplog::flush(header, clear_traces = false)` and the header written when an oplog is created:
/// exactly two operations IN THIS ORDER -- first the new header into the slot that is not the
/// current one, then the truncation of the entries (they are folded into the header just written).
/// Truncating first would lose acknowledged operations if the header write then fails or the
/// process dies in between.  All four header-bit phases.
#[kani::proof]
#[kani::stub(std::fmt::format, stub_format)]
#[kani::stub(std::string::String::from_utf8, stub_from_utf8)]
fn c02_flush_header_then_truncate() {
    let bits: [bool; 2] = [kani::any(), kani::any()];
    let rh = base_header(2);
    let header = header_from_ref(&rh);
    let mut oplog = Oplog { header_bits: bits, entries_length: 2, entries_byte_length: 161 };
    let infos = oplog.flush(&header, false).unwrap();
    assert!(infos.len() == 2);
    assert!(infos[0].store == Store::Oplog && infos[0].info_type == StoreInfoType::Content && !infos[0].miss);
    // bits differ -> slot 0 is rewritten, bits equal -> slot 1
    assert!(infos[0].index == if bits[0] != bits[1] { 0 } else { 4096 });
    assert!(infos[0].data.as_ref().unwrap().len() < 4096);
    assert!(infos[1].store == Store::Oplog && infos[1].info_type == StoreInfoType::Size && infos[1].miss && infos[1].index == 8192);
    assert!(oplog.entries_length == 0 && oplog.entries_byte_length == 0);
    // the new header's bit makes its slot the current one: equal bits afterwards <=> slot 0 written
    assert!((oplog.header_bits[0] == oplog.header_bits[1]) == (bits[0] != bits[1]));
    kani::cover!(true, "reached end");
    std::mem::forget(infos);
}

/// Creating an oplog (`Oplog::open` on empty storage with a key pair): header into slot 0 first,
/// then the file is cut at 8192.
#[kani::proof]
#[kani::stub(std::fmt::format, stub_format)]
#[kani::stub(std::string::String::from_utf8, stub_from_utf8)]
fn c02_fresh_header_then_truncate() {
    let kp = Some(kp_from(PK, Some(SK)));
    let out = match Oplog::open(&kp, Some(StoreInfo::new_content(Store::Oplog, 0, &[]))).unwrap() {
        Either::Right(o) => o,
        Either::Left(_) => unreachable!(),
    };
    let infos = &out.infos_to_flush;
    assert!(infos.len() == 2);
    assert!(infos[0].info_type == StoreInfoType::Content && !infos[0].miss && infos[0].index == 0);
    assert!(infos[1].info_type == StoreInfoType::Size && infos[1].miss && infos[1].index == 8192);
    assert!(out.oplog.entries_length == 0 && out.oplog.entries_byte_length == 0);
    kani::cover!(true, "reached end");
    std::mem::forget(out);
}

/// `Oplog::append_changeset` for an appended block: the entry written is
/// {nodes = changeset.nodes, upgrade = (fork, ancestors, length, signature), bitfield = the update
/// passed in}, at 8192 + pending bytes, and the returned header carries the changeset's root hash,
/// signature and length.  One concrete changeset (distinct byte patterns per field); the byte
/// positions compared are symbolic.
#[kani::proof]
#[kani::stub(std::fmt::format, stub_format)]
#[kani::stub(std::string::String::from_utf8, stub_from_utf8)]
fn c01_oplog_append_changeset_entry() {
    use crate::tree::MerkleTreeChangeset;
    // concrete, pairwise different contents (bytes under the CRC frame cannot be symbolic)
    let node = cnode(4, 3, 0x44);
    let mut root_hash = [0x55u8; 32];
    root_hash[0] = 0x56;
    let mut sig = [0u8; 64];
    let mut q = 0;
    while q < 64 {
        sig[q] = 0x80 + q as u8;
        q += 1;
    }
    let mut cs = MerkleTreeChangeset::new(2, 7, 0, vec![]);
    cs.nodes = vec![node.clone()];
    cs.batch_length = 1;
    cs.ancestors = 2;
    cs.length = 3;
    cs.byte_length = 10;
    cs.upgraded = true;
    cs.hash = Some(root_hash.to_vec().into_boxed_slice());
    cs.signature = Some(ed25519_dalek::Signature::from_bytes(&sig));
    let header = header_from_ref(&base_header(2));
    let mut oplog = Oplog { header_bits: [true, false], entries_length: 1, entries_byte_length: 50 };
    let upd = BitfieldUpdate { drop: false, start: 2, length: 1 };
    let out = oplog.append_changeset(&cs, Some(upd.clone()), false, &header).unwrap();
    // header handed back to core.rs
    assert!(out.header.tree.length == 3);
    assert!(out.header.tree.root_hash.len() == 32 && out.header.tree.signature.len() == 64);
    let k: usize = kani::any();
    kani::assume(k < 32);
    assert!(out.header.tree.root_hash[k] == root_hash[k]);
    let m: usize = kani::any();
    kani::assume(m < 64);
    assert!(out.header.tree.signature[m] == sig[m]);
    // the write
    assert!(out.infos_to_flush.len() == 1);
    let i0 = &out.infos_to_flush[0];
    assert!(i0.store == Store::Oplog && i0.info_type == StoreInfoType::Content && !i0.miss && i0.index == 8192 + 50);
    let d = i0.data.as_ref().unwrap();
    let mut r = W::<256>::new();
    let n = ref_entry_at(&mut r, 0, &RefEntry { nodes: &[node], upgrade: Some((0, 2, 3, &sig)), bitfield: Some((false, 2, 1)), bf_present: true }, false, true);
    assert!(d.len() == n);
    let j: usize = kani::any();
    kani::assume(j >= 4 && j < n); // bytes 0..4 are the CRC (covered by c06_leader_entry)
    assert!(d[j] == r.buf[j]);
    assert!(oplog.entries_length == 2 && oplog.entries_byte_length == 50 + n as u64);
    kani::cover!(true, "reached end");
    std::mem::forget(out);
}
