//! Child module of `hypercore::oplog` (attached by the overlay): sees `Oplog`'s private items.
//! C01/C06: entry + header codecs (replay path) vs the reference layout;
//! C02/C06/C07: `Oplog::open` on images built from the crate's own `StoreInfo`s and from the
//! reference encoder, with crash / torn-write cut points.
#![allow(unused_imports, dead_code, future_incompatible, rust_2018_idioms, unsafe_code, missing_docs, missing_debug_implementations, unreachable_pub, clippy::all)]
use super::entry::{Entry, EntryTreeUpgrade};
use super::header::{Header, HeaderTree};
use super::*;
use crate::common::{BitfieldUpdate, Store, StoreInfo, StoreInfoType};
use crate::crypto::PartialKeypair;
use crate::verif::ref_codec::{crc32_bitwise, W};
use crate::verif::util::*;
use crate::Node;
use compact_encoding::CompactEncoding;
use ed25519_dalek::SigningKey;

// ------------------------------------------------------------------------------------ reference

/// Reference entry layout (JS `oplog.entry`): flags byte (1 userData, 2 treeNodes, 4 treeUpgrade,
/// 8 bitfield) followed by the present sections in that order.
pub(crate) struct RefEntry<'a> {
    pub nodes: &'a [Node],
    pub upgrade: Option<(u64, u64, u64, &'a [u8])>, // fork, ancestors, length, signature
    pub bitfield: Option<(bool, u64, u64)>,          // drop, start, length
}

pub(crate) fn ref_entry<const C: usize>(w: &mut W<C>, e: &RefEntry<'_>) {
    let mut flags = 0u8;
    if !e.nodes.is_empty() {
        flags |= 2;
    }
    if e.upgrade.is_some() {
        flags |= 4;
    }
    if e.bitfield.is_some() {
        flags |= 8;
    }
    w.u8(flags);
    if !e.nodes.is_empty() {
        w.uint(e.nodes.len() as u64);
        let mut i = 0;
        while i < e.nodes.len() {
            w.node(e.nodes[i].index, e.nodes[i].length, &hash32(&e.nodes[i]));
            i += 1;
        }
    }
    if let Some((fork, anc, len, sig)) = e.upgrade {
        w.uint(fork);
        w.uint(anc);
        w.uint(len);
        w.bytes(sig);
    }
    if let Some((drop, start, len)) = e.bitfield {
        w.u8(if drop { 1 } else { 0 });
        w.uint(start);
        w.uint(len);
    }
}

fn mk_entry(nodes: Vec<Node>, upgrade: Option<(u64, u64, u64, [u8; 64])>, bitfield: Option<(bool, u64, u64)>) -> Entry {
    Entry {
        user_data: vec![],
        tree_nodes: nodes,
        tree_upgrade: upgrade.map(|(fork, ancestors, length, sig)| EntryTreeUpgrade {
            fork,
            ancestors,
            length,
            signature: sig.to_vec().into_boxed_slice(),
        }),
        bitfield: bitfield.map(|(drop, start, length)| BitfieldUpdate { drop, start, length }),
    }
}

fn entry_eq(a: &Entry, b: &Entry) -> bool {
    let up = match (&a.tree_upgrade, &b.tree_upgrade) {
        (None, None) => true,
        (Some(x), Some(y)) => {
            x.fork == y.fork && x.ancestors == y.ancestors && x.length == y.length && x.signature == y.signature
        }
        _ => false,
    };
    a.user_data.is_empty() && b.user_data.is_empty() && nodes_eq(&a.tree_nodes, &b.tree_nodes) && up && a.bitfield == b.bitfield
}

/// size == reference size, bytes == reference bytes, decode(bytes) == entry with nothing left.
fn check_entry<const C: usize>(e: &Entry, r: &W<C>) {
    let n = e.encoded_size().unwrap();
    assert!(n == r.pos);
    let mut buf = [0u8; C];
    let left = e.encode(&mut buf).unwrap().len();
    assert!(left == C - n);
    let j: usize = kani::any();
    kani::assume(j < C);
    assert!(buf[j] == r.buf[j]);
    // the replay path: what `Oplog::open` does with the stored bytes.  Decoding the reference
    // buffer is equivalent (bytes were just shown equal) and keeps constants propagating: the
    // reference writes by direct indexing, the crate through memcpy, which CBMC does not split
    // into per-byte constants.
    // (slice by r.pos, a constant for CBMC; `n` computed by the crate is not constant-folded)
    let (d, rest) = Entry::decode(&r.buf[..r.pos]).unwrap();
    assert!(rest.is_empty());
    assert!(entry_eq(&d, e));
    kani::cover!(true, "reached end");
}

fn fw_node(index: u64, length: u64) -> Node {
    let hash: [u8; 32] = kani::any();
    Node::new(index, hash.to_vec(), length)
}

// -------------------------------------------------------------------------- C01/C06 entry codec

/// clear entry (bitfield only): every drop/start/length.
#[kani::proof]
#[kani::stub(std::fmt::format, stub_format)]
#[kani::stub(std::string::String::from_utf8, stub_from_utf8)]
fn c01_entry_clear() {
    let bf = (kani::any(), kani::any(), kani::any());
    let e = mk_entry(vec![], None, Some(bf));
    let mut r = W::<24>::new();
    ref_entry(&mut r, &RefEntry { nodes: &[], upgrade: None, bitfield: Some(bf) });
    check_entry(&e, &r);
}

/// append entry: nodes + upgrade + bitfield (all three sections).
#[kani::proof]
#[kani::stub(std::fmt::format, stub_format)]
#[kani::stub(std::string::String::from_utf8, stub_from_utf8)]
fn c01_entry_append() {
    let nodes = vec![fw_node(4, 0xfd), fw_node(5, 0x1_0000)];
    let sig: [u8; 64] = kani::any();
    let up = (0u64, 2u64, 3u64, sig);
    let bf = (false, 2u64, 1u64);
    let e = mk_entry(nodes.clone(), Some(up), Some(bf));
    let mut r = W::<176>::new();
    ref_entry(&mut r, &RefEntry { nodes: &nodes, upgrade: Some((0, 2, 3, &sig)), bitfield: Some(bf) });
    check_entry(&e, &r);
}

/// block-only proof application on a replica: nodes + bitfield, no upgrade.
#[kani::proof]
#[kani::stub(std::fmt::format, stub_format)]
#[kani::stub(std::string::String::from_utf8, stub_from_utf8)]
fn c01_entry_block_only() {
    let nodes = vec![fw_node(8, 3), fw_node(10, 0xfc)];
    let bf = (false, 4u64, 1u64);
    let e = mk_entry(nodes.clone(), None, Some(bf));
    let mut r = W::<96>::new();
    ref_entry(&mut r, &RefEntry { nodes: &nodes, upgrade: None, bitfield: Some(bf) });
    check_entry(&e, &r);
}

/// upgrade-only proof application: upgrade (+ nodes), no bitfield.
#[kani::proof]
#[kani::stub(std::fmt::format, stub_format)]
#[kani::stub(std::string::String::from_utf8, stub_from_utf8)]
fn c01_entry_upgrade_nodes() {
    let nodes = vec![fw_node(1, 7)];
    let sig: [u8; 64] = kani::any();
    let e = mk_entry(nodes.clone(), Some((1, 0xfd, 0x1_0000, sig)), None);
    let mut r = W::<128>::new();
    ref_entry(&mut r, &RefEntry { nodes: &nodes, upgrade: Some((1, 0xfd, 0x1_0000, &sig)), bitfield: None });
    check_entry(&e, &r);
}

#[kani::proof]
#[kani::stub(std::fmt::format, stub_format)]
#[kani::stub(std::string::String::from_utf8, stub_from_utf8)]
fn c01_entry_upgrade_only() {
    let sig: [u8; 64] = kani::any();
    let e = mk_entry(vec![], Some((0xffff_ffff, 0x1_0000_0000, u64::MAX, sig)), None);
    let mut r = W::<96>::new();
    ref_entry(&mut r, &RefEntry { nodes: &[], upgrade: Some((0xffff_ffff, 0x1_0000_0000, u64::MAX, &sig)), bitfield: None });
    check_entry(&e, &r);
}

/// upgrade scalars full-range symbolic, encode side (decode would read the signature length from a
/// symbolic position: symbolic-size allocation, out of reach); bitfield scalars symbolic too.
#[kani::proof]
#[kani::stub(std::fmt::format, stub_format)]
#[kani::stub(std::string::String::from_utf8, stub_from_utf8)]
fn c01_entry_upgrade_scalars_encode() {
    let sig: [u8; 64] = kani::any();
    let (fork, anc, len): (u64, u64, u64) = (kani::any(), kani::any(), kani::any());
    let e = mk_entry(vec![], Some((fork, anc, len, sig)), None);
    let mut r = W::<96>::new();
    ref_entry(&mut r, &RefEntry { nodes: &[], upgrade: Some((fork, anc, len, &sig)), bitfield: None });
    let n = e.encoded_size().unwrap();
    assert!(n == r.pos);
    let mut buf = [0u8; 96];
    let left = e.encode(&mut buf).unwrap().len();
    assert!(left == 96 - n);
    let j: usize = kani::any();
    kani::assume(j < 96);
    assert!(buf[j] == r.buf[j]);
    kani::cover!(true, "reached end");
}


// =============================================================================================
// Reference header / leader / oplog image (JS `hypercore/lib/oplog.js` + `messages.js` layout)
// =============================================================================================

pub(crate) const DEFAULT_NAMESPACE: [u8; 32] = [
    0x41, 0x44, 0xEE, 0xA5, 0x31, 0xE4, 0x83, 0xD5, 0x4E, 0x0C, 0x14, 0xF4, 0xCA, 0x68, 0xE0, 0x64,
    0x4F, 0x35, 0x53, 0x43, 0xFF, 0x6F, 0xCB, 0x0F, 0x00, 0x52, 0x00, 0xE1, 0x2C, 0xD7, 0x47, 0xCB,
];

/// What a header means, independent of the crate's `Header` struct.
#[derive(Clone, Copy)]
pub(crate) struct RefHeader {
    pub public: [u8; 32],
    pub secret: Option<[u8; 32]>,
    pub fork: u64,
    pub length: u64,
    /// (root hash, signature) present iff the tree has been upgraded at least once
    pub signed: Option<([u8; 32], [u8; 64])>,
    pub contiguous_length: u64,
}

/// header payload: version 1, flags (manifest|keyPair present = 2|4), key, manifest
/// {version 0, hash blake2b=0, type signer=1, signer {ed25519=0, namespace, publicKey}},
/// keyPair {publicKey buffer, secretKey buffer (sodium: secret||public, 64 bytes) or empty},
/// userData [], tree {fork, length, rootHash buffer, signature buffer}, hints {reorgs [], contiguousLength}.
pub(crate) fn ref_header<const C: usize>(w: &mut W<C>, h: &RefHeader) {
    w.u8(1);
    w.u8(2 | 4);
    w.raw(&h.public);
    w.u8(0);
    w.u8(0);
    w.u8(1);
    w.u8(0);
    w.raw(&DEFAULT_NAMESPACE);
    w.raw(&h.public);
    w.uint(32);
    w.raw(&h.public);
    match &h.secret {
        Some(sk) => {
            w.uint(64);
            w.raw(sk);
            w.raw(&h.public);
        }
        None => w.uint(0),
    }
    w.uint(0); // userData
    w.uint(h.fork);
    w.uint(h.length);
    match &h.signed {
        Some((root, sig)) => {
            w.bytes(root);
            w.bytes(sig);
        }
        None => {
            w.uint(0);
            w.uint(0);
        }
    }
    w.uint(0); // reorgs
    w.uint(h.contiguous_length);
}

/// Wrap the `n` payload bytes that were just written after `start + 8` with the 8-byte leader at
/// `start`: LE32 crc32(bytes start+4 .. start+8+n), LE32 (n << 2 | partial << 1 | header_bit).
pub(crate) fn ref_leader<const C: usize>(w: &mut W<C>, start: usize, n: usize, partial: bool, header_bit: bool) {
    let info: u32 = ((n as u32) << 2) | (if partial { 2 } else { 0 }) | (if header_bit { 1 } else { 0 });
    w.buf[start + 4] = info as u8;
    w.buf[start + 5] = (info >> 8) as u8;
    w.buf[start + 6] = (info >> 16) as u8;
    w.buf[start + 7] = (info >> 24) as u8;
    let crc = crc32_bitwise(&w.buf[start + 4..start + 8 + n]);
    w.buf[start] = crc as u8;
    w.buf[start + 1] = (crc >> 8) as u8;
    w.buf[start + 2] = (crc >> 16) as u8;
    w.buf[start + 3] = (crc >> 24) as u8;
}

/// Write leader + header at `at` (a slot offset). Returns the total size (8 + payload).
pub(crate) fn ref_header_at<const C: usize>(w: &mut W<C>, at: usize, h: &RefHeader, header_bit: bool) -> usize {
    w.pos = at + 8;
    ref_header(w, h);
    let n = w.pos - (at + 8);
    ref_leader(w, at, n, false, header_bit);
    8 + n
}

/// Write leader + entry at `at`. Returns the total size.
pub(crate) fn ref_entry_at<const C: usize>(w: &mut W<C>, at: usize, e: &RefEntry<'_>, partial: bool, header_bit: bool) -> usize {
    w.pos = at + 8;
    ref_entry(w, e);
    let n = w.pos - (at + 8);
    ref_leader(w, at, n, partial, header_bit);
    8 + n
}

pub(crate) fn kp_from(public: [u8; 32], secret: Option<[u8; 32]>) -> PartialKeypair {
    PartialKeypair {
        public: ed25519_dalek::VerifyingKey::from_bytes(&public).unwrap(),
        secret: secret.map(|s| SigningKey::from_bytes(&s)),
    }
}

pub(crate) fn header_matches(h: &Header, r: &RefHeader) -> bool {
    let sk_ok = match (&h.key_pair.secret, &r.secret) {
        (None, None) => true,
        (Some(a), Some(b)) => a.to_bytes() == *b,
        _ => false,
    };
    let tree_ok = match &r.signed {
        Some((root, sig)) => *h.tree.root_hash == root[..] && *h.tree.signature == sig[..],
        None => h.tree.root_hash.is_empty() && h.tree.signature.is_empty(),
    };
    h.key == r.public
        && h.key_pair.public.to_bytes() == r.public
        && h.manifest.signer.public_key == r.public
        && h.manifest.signer.namespace == DEFAULT_NAMESPACE
        && sk_ok
        && h.user_data.is_empty()
        && h.tree.fork == r.fork
        && h.tree.length == r.length
        && tree_ok
        && h.hints.reorgs.is_empty()
        && h.hints.contiguous_length == r.contiguous_length
}

// ------------------------------------------------------------------------ C06 leader / CRC

/// Leader framing of the real code (`encode_with_leader`, real `crc32fast`) against the reference
/// (bitwise CRC-32): a clear entry with symbolic fields (up to 19 payload bytes), both bits.
#[kani::proof]
#[kani::stub(std::fmt::format, stub_format)]
#[kani::stub(std::string::String::from_utf8, stub_from_utf8)]
fn c06_leader_entry() {
    let (s8, l8): (u8, u8) = (kani::any(), kani::any());
    kani::assume(s8 < 0xfd && l8 < 0xfd);
    let bf = (kani::any(), s8 as u64, l8 as u64);
    let e = mk_entry(vec![], None, Some(bf));
    let partial: bool = kani::any();
    let bit: bool = kani::any();
    let mut buf = [0u8; 32];
    let left = encode_with_leader(&e, partial, bit, &mut buf).unwrap().len();
    let mut r = W::<32>::new();
    let total = ref_entry_at(&mut r, 0, &RefEntry { nodes: &[], upgrade: None, bitfield: Some(bf) }, partial, bit);
    assert!(left == 32 - total);
    let j: usize = kani::any();
    kani::assume(j < 32);
    assert!(buf[j] == r.buf[j]);
    // and the reader side
    let out = Oplog::validate_leader(&r.buf[..total]).unwrap().unwrap();
    assert!(out.header_bit == bit && out.partial_bit == partial);
    assert!(out.state.len() == total - 8);
    kani::cover!(true, "reached end");
}
