//! MODEL placeholder (overlay variant "st"): `Storage::new_memory` is cut from the overlay copy.
#![allow(missing_docs)]
#[derive(Debug, Default)]
pub struct RandomAccessMemory {}
