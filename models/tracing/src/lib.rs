//! MODEL of `tracing`: logging is never the subject of a property.  `#[instrument]` is the
//! identity attribute; the event/span macros expand to nothing (their arguments are not evaluated,
//! as with a disabled subscriber level).
pub use tracing_attributes::instrument;

#[macro_export]
macro_rules! trace { ($($t:tt)*) => {{}}; }
#[macro_export]
macro_rules! debug { ($($t:tt)*) => {{}}; }
#[macro_export]
macro_rules! info { ($($t:tt)*) => {{}}; }
#[macro_export]
macro_rules! warn { ($($t:tt)*) => {{}}; }
#[macro_export]
macro_rules! error { ($($t:tt)*) => {{}}; }
#[macro_export]
macro_rules! event { ($($t:tt)*) => {{}}; }

/// placeholder span (`let _g = tracing::info_span!(..).entered();` patterns)
#[derive(Debug, Clone, Copy, Default)]
pub struct Span;
impl Span {
    pub fn entered(self) -> Span { Span }
    pub fn enter(&self) -> Span { Span }
    pub fn in_scope<F: FnOnce() -> T, T>(&self, f: F) -> T { f() }
    pub fn current() -> Span { Span }
    pub fn none() -> Span { Span }
}
#[macro_export]
macro_rules! span { ($($t:tt)*) => { $crate::Span }; }
#[macro_export]
macro_rules! trace_span { ($($t:tt)*) => { $crate::Span }; }
#[macro_export]
macro_rules! debug_span { ($($t:tt)*) => { $crate::Span }; }
#[macro_export]
macro_rules! info_span { ($($t:tt)*) => { $crate::Span }; }
#[macro_export]
macro_rules! warn_span { ($($t:tt)*) => { $crate::Span }; }
#[macro_export]
macro_rules! error_span { ($($t:tt)*) => { $crate::Span }; }

#[derive(Debug, Clone, Copy, PartialEq, Eq, PartialOrd, Ord)]
pub struct Level(u8);
impl Level {
    pub const TRACE: Level = Level(0);
    pub const DEBUG: Level = Level(1);
    pub const INFO: Level = Level(2);
    pub const WARN: Level = Level(3);
    pub const ERROR: Level = Level(4);
}
