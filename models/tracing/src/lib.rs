pub use tracing_attributes::instrument;
