//! MODEL of `random-access-storage` 5.0 for overlay variant "st".
//! Same error type and the same trait, except that the methods are plain functions instead of
//! `async fn` (= a backend whose futures are always ready).  With it the REAL
//! `hypercore::storage::Storage::{read_infos_to_vec, flush_infos, ...}` is compiled after the
//! mechanical `async fn` -> `fn`, `.await` -> `` rewrite, and its `Box<dyn RandomAccess>` calls are
//! ordinary virtual calls to the harness backend (no `Pin<Box<dyn Future>>` fan-out).
#![allow(missing_docs)]
use std::fmt;

#[derive(Debug)]
pub enum RandomAccessError {
    OutOfBounds { offset: u64, end: Option<u64>, length: u64 },
    IO { return_code: Option<i32>, context: Option<String>, source: std::io::Error },
}

impl fmt::Display for RandomAccessError {
    fn fmt(&self, f: &mut fmt::Formatter<'_>) -> fmt::Result {
        f.write_str("random access error")
    }
}
impl std::error::Error for RandomAccessError {}
impl From<std::io::Error> for RandomAccessError {
    fn from(err: std::io::Error) -> Self {
        Self::IO { return_code: None, context: None, source: err }
    }
}

pub trait RandomAccess {
    fn write(&mut self, offset: u64, data: &[u8]) -> Result<(), RandomAccessError>;
    fn read(&mut self, offset: u64, length: u64) -> Result<Vec<u8>, RandomAccessError>;
    fn del(&mut self, offset: u64, length: u64) -> Result<(), RandomAccessError>;
    fn truncate(&mut self, length: u64) -> Result<(), RandomAccessError>;
    fn len(&mut self) -> Result<u64, RandomAccessError>;
    fn is_empty(&mut self) -> Result<bool, RandomAccessError>;
    fn sync_all(&mut self) -> Result<(), RandomAccessError>;
}
