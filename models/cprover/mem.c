/* Byte-loop memcpy/memmove for the S-harnesses (linked into the goto binary before
 * `goto-instrument --add-library`, so CBMC's built-in versions are not added).
 *
 * CBMC's library memcpy is `__CPROVER_array_copy` + `__CPROVER_array_replace`: an array-theory
 * equation that symbolic execution cannot see through, so bytes that the crate encodes into a
 * buffer, hands to storage, reads back and decodes are no longer constants (list counts become
 * symbolic, `Vec::with_capacity` becomes a symbolic-size allocation).  A loop with a constant trip
 * count copies element by element and keeps constants constant.  Semantics are those of the C
 * standard functions; the loops are bounded by --unwindset with unwinding assertions on. */
void *memcpy(void *dst, const void *src, __CPROVER_size_t n)
{
  for(__CPROVER_size_t i = 0; i < n; i++)
    ((char *)dst)[i] = ((const char *)src)[i];
  return dst;
}

void *memmove(void *dst, const void *src, __CPROVER_size_t n)
{
  /* forward copy unless dst lies after src inside the same object */
  if(__CPROVER_POINTER_OBJECT(dst) != __CPROVER_POINTER_OBJECT(src) ||
     __CPROVER_POINTER_OFFSET(dst) <= __CPROVER_POINTER_OFFSET(src))
  {
    for(__CPROVER_size_t i = 0; i < n; i++)
      ((char *)dst)[i] = ((const char *)src)[i];
  }
  else
  {
    for(__CPROVER_size_t i = n; i > 0; i--)
      ((char *)dst)[i - 1] = ((const char *)src)[i - 1];
  }
  return dst;
}
