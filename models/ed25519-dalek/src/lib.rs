//! Idealised model of ed25519-dalek: injective, perfectly binding signatures over byte strings.
pub const PUBLIC_KEY_LENGTH: usize = 32;
pub const SECRET_KEY_LENGTH: usize = 32;
pub const KEYPAIR_LENGTH: usize = 64;
pub const SIGNATURE_LENGTH: usize = 64;
pub type SecretKey = [u8; 32];

#[derive(Debug, Clone, Copy, PartialEq, Eq)]
pub struct SignatureError;
impl core::fmt::Display for SignatureError {
    fn fmt(&self, f: &mut core::fmt::Formatter<'_>) -> core::fmt::Result { f.write_str("signature error") }
}
impl std::error::Error for SignatureError {}

#[derive(Debug, Clone, Copy, PartialEq, Eq)]
pub struct Signature(pub [u8; 64]);
impl Signature {
    pub fn from_bytes(b: &[u8; 64]) -> Self { Signature(*b) }
    pub fn to_bytes(&self) -> [u8; 64] { self.0 }
}
impl TryFrom<&[u8]> for Signature {
    type Error = SignatureError;
    fn try_from(b: &[u8]) -> Result<Self, SignatureError> {
        if b.len() != 64 { return Err(SignatureError); }
        let mut a = [0u8; 64];
        let mut i = 0; while i < 64 { a[i] = b[i]; i += 1; }
        Ok(Signature(a))
    }
}

#[derive(Debug, Clone, Copy, PartialEq, Eq)]
pub struct VerifyingKey([u8; 32]);
impl VerifyingKey {
    pub fn from_bytes(b: &[u8; 32]) -> Result<Self, SignatureError> { Ok(VerifyingKey(*b)) }
    pub fn to_bytes(&self) -> [u8; 32] { self.0 }
    pub fn as_bytes(&self) -> &[u8; 32] { &self.0 }
}

#[derive(Debug, Clone, PartialEq, Eq)]
pub struct SigningKey([u8; 32]);
impl SigningKey {
    pub fn from_bytes(b: &[u8; 32]) -> Self { SigningKey(*b) }
    pub fn to_bytes(&self) -> [u8; 32] { self.0 }
    pub fn verifying_key(&self) -> VerifyingKey {
        let mut p = [0u8; 32];
        let mut i = 0; while i < 32 { p[i] = self.0[i] ^ 0xA5; i += 1; }
        VerifyingKey(p)
    }
    #[cfg(feature = "rand_core")]
    pub fn generate<R: rand_core::CryptoRngCore + ?Sized>(rng: &mut R) -> Self {
        let mut b = [0u8; 32]; rng.fill_bytes(&mut b); SigningKey(b)
    }
}

/// S(pk, msg): 48 bytes of message digest (last 48 bytes, zero-padded/folded) || first 16 bytes of pk.
fn ideal(pk: &[u8; 32], msg: &[u8]) -> [u8; 64] {
    let mut s = [0u8; 64];
    let n = msg.len();
    let mut i = 0;
    while i < n { s[i % 48] ^= msg[n - 1 - i]; i += 1; }
    let mut k = 0; while k < 16 { s[48 + k] = pk[k]; k += 1; }
    s
}
pub trait Signer<S> { fn sign(&self, msg: &[u8]) -> S; }
pub trait Verifier<S> { fn verify(&self, msg: &[u8], sig: &S) -> Result<(), SignatureError>; }
impl Signer<Signature> for SigningKey {
    fn sign(&self, msg: &[u8]) -> Signature { Signature(ideal(&self.verifying_key().0, msg)) }
}
impl Verifier<Signature> for VerifyingKey {
    fn verify(&self, msg: &[u8], sig: &Signature) -> Result<(), SignatureError> {
        let e = ideal(&self.0, msg);
        let mut i = 0; let mut ok = true;
        while i < 64 { if e[i] != sig.0[i] { ok = false; } i += 1; }
        if ok { Ok(()) } else { Err(SignatureError) }
    }
}
