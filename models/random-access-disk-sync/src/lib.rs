//! MODEL placeholder (overlay variant "st"): `Storage::new_disk` is cut from the overlay copy.
#![allow(missing_docs)]
#[derive(Debug)]
pub struct RandomAccessDisk {}
