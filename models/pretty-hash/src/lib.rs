//! Stub of pretty-hash without the `failure` dependency (same semantics).
/// fmt
pub fn fmt(input: &[u8]) -> Result<String, std::fmt::Error> {
  let string: String = input.iter().map(|byte| format!("{:02x}", byte)).collect();
  if string.len() > 8 {
    let (head, tail) = string.split_at(6);
    let cut_off = tail.len() - 2;
    let (_, tail) = tail.split_at(cut_off);
    Ok(format!("{}..{}", head, tail))
  } else { Ok(string) }
}
