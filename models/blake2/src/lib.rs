//! Model of the `blake2` crate for solver-based checking of hypercore.
//!
//! The hasher records its input; `finalize` is one of
//!   * FOLD   (default): a cheap deterministic, never-all-zero byte fold.  Sound for every property
//!     that must hold for *any* hash function (completeness, round trips, panics);
//!   * UF: "uninterpreted injective function": equal inputs -> equal outputs, a new input -> the
//!     next value of an oracle array that the harness fills with symbolic, pairwise distinct,
//!     non-zero values.  Used where collision-freeness is the hypothesis (forged proofs).
//! With RECORD on, every finalized input is appended to a log the harness can read back
//! (framing checks: what exactly was handed to the hash function).
#![allow(static_mut_refs)]
pub use digest::{self, Digest};
use core::marker::PhantomData;
use digest::{
    generic_array::ArrayLength, FixedOutput, HashMarker, Output, OutputSizeUser, Update,
};

pub mod model {
    pub const CAP: usize = 160;
    pub const TABLE: usize = 32;
    pub const LOGN: usize = 24;
    pub static mut UF: bool = false;
    pub static mut RECORD: bool = false;
    pub static mut ORACLE: [[u8; 32]; TABLE] = [[0u8; 32]; TABLE];
    pub static mut T_IN: [[u8; CAP]; TABLE] = [[0u8; CAP]; TABLE];
    pub static mut T_LEN: [usize; TABLE] = [0; TABLE];
    pub static mut T_N: usize = 0;
    pub static mut LOG_IN: [[u8; CAP]; LOGN] = [[0u8; CAP]; LOGN];
    pub static mut LOG_LEN: [usize; LOGN] = [0; LOGN];
    pub static mut LOG_N: usize = 0;
    /// Input of the hasher currently being fed (hypercore never interleaves two hashers): kept in a
    /// global instead of inside the hasher value so that moving/cloning a hasher does not copy
    /// CAP bytes (symbolic execution cost), and not touched at all in plain FOLD mode.
    pub static mut CUR: [u8; CAP] = [0u8; CAP];

    pub fn reset() {
        unsafe {
            T_N = 0;
            LOG_N = 0;
        }
    }
    pub fn set_uf(on: bool) {
        unsafe { UF = on }
    }
    pub fn set_record(on: bool) {
        unsafe { RECORD = on }
    }
    pub fn set_oracle(i: usize, v: [u8; 32]) {
        unsafe { ORACLE[i] = v }
    }
    pub fn table_len() -> usize {
        unsafe { T_N }
    }
    pub fn log_len() -> usize {
        unsafe { LOG_N }
    }
    pub fn log_entry(i: usize) -> (&'static [u8; CAP], usize) {
        unsafe { (&LOG_IN[i], LOG_LEN[i]) }
    }

    pub(crate) fn finalize(len: usize, fold: &[u8; 32], out: &mut [u8]) {
        unsafe {
            let buf = &CUR;
            if RECORD {
                assert!(LOG_N < LOGN, "blake2 model: log capacity exceeded (stated bound)");
                LOG_IN[LOG_N] = *buf;
                LOG_LEN[LOG_N] = len;
                LOG_N += 1;
            }
            if !UF {
                let mut i = 0;
                while i < 32 && i < out.len() {
                    out[i] = fold[i];
                    i += 1;
                }
                return;
            }
            let mut k = 0;
            while k < T_N {
                if T_LEN[k] == len {
                    let mut same = true;
                    let mut j = 0;
                    while j < CAP {
                        if j < len && T_IN[k][j] != buf[j] {
                            same = false;
                        }
                        j += 1;
                    }
                    if same {
                        let mut i = 0;
                        while i < 32 && i < out.len() {
                            out[i] = ORACLE[k][i];
                            i += 1;
                        }
                        return;
                    }
                }
                k += 1;
            }
            assert!(T_N < TABLE, "blake2 model: table capacity exceeded (stated bound)");
            T_IN[T_N] = *buf;
            T_LEN[T_N] = len;
            let mut i = 0;
            while i < 32 && i < out.len() {
                out[i] = ORACLE[T_N][i];
                i += 1;
            }
            T_N += 1;
        }
    }
}

#[derive(Clone)]
pub struct Blake2b<N> {
    len: usize,
    fold: [u8; 32],
    _n: PhantomData<N>,
}
impl<N> core::fmt::Debug for Blake2b<N> {
    fn fmt(&self, f: &mut core::fmt::Formatter<'_>) -> core::fmt::Result {
        f.write_str("Blake2b(model)")
    }
}
impl<N> Default for Blake2b<N> {
    fn default() -> Self {
        let mut fold = [0u8; 32];
        fold[0] = 0xB2;
        Blake2b { len: 0, fold, _n: PhantomData }
    }
}
impl<N> Blake2b<N> {
    fn absorb(&mut self, data: &[u8]) {
        let keep = unsafe { model::UF || model::RECORD };
        let mut i = 0;
        while i < data.len() {
            let p = self.len;
            if keep {
                assert!(p < model::CAP, "blake2 model: input longer than CAP (stated bound)");
                unsafe { model::CUR[p] = data[i] };
            }
            // fold: position-dependent xor/rotate into bytes 1..32; byte 0 stays 0xB2 (never blank)
            let slot = 1 + (p % 31);
            self.fold[slot] = self.fold[slot].rotate_left(3) ^ data[i] ^ (p as u8).wrapping_mul(29);
            self.len = p + 1;
            i += 1;
        }
    }
}
impl<N: ArrayLength<u8> + 'static> OutputSizeUser for Blake2b<N> {
    type OutputSize = N;
}
impl<N> Update for Blake2b<N> {
    fn update(&mut self, data: &[u8]) {
        self.absorb(data)
    }
}
impl<N: ArrayLength<u8> + 'static> FixedOutput for Blake2b<N> {
    fn finalize_into(self, out: &mut Output<Self>) {
        model::finalize(self.len, &self.fold, out.as_mut_slice());
    }
}
impl<N> HashMarker for Blake2b<N> {}

/// Keyed/salted variant: only used by `for_discovery_key`, which no harness exercises.
#[derive(Clone, Debug)]
pub struct Blake2bMac<N> {
    inner: Blake2b<N>,
}
#[derive(Debug, Clone, Copy)]
pub struct InvalidLength;
impl<N> Blake2bMac<N> {
    pub fn new_with_salt_and_personal(
        key: &[u8],
        salt: &[u8],
        persona: &[u8],
    ) -> Result<Self, InvalidLength> {
        let mut inner = Blake2b::<N>::default();
        inner.absorb(&[0xFF]);
        inner.absorb(key);
        inner.absorb(salt);
        inner.absorb(persona);
        Ok(Blake2bMac { inner })
    }
}
impl<N: ArrayLength<u8> + 'static> OutputSizeUser for Blake2bMac<N> {
    type OutputSize = N;
}
impl<N> Update for Blake2bMac<N> {
    fn update(&mut self, data: &[u8]) {
        self.inner.absorb(data)
    }
}
impl<N: ArrayLength<u8> + 'static> FixedOutput for Blake2bMac<N> {
    fn finalize_into(self, out: &mut Output<Self>) {
        model::finalize(self.inner.len, &self.inner.fold, out.as_mut_slice());
    }
}
