//! MODEL of the `async-broadcast` crate (0.7) for solver-based checking of hypercore.
//!
//! Same observable rules as the real channel for the calls hypercore makes
//! (`broadcast`, `Sender::{set_await_active, try_broadcast, new_receiver, clone}`,
//! `Receiver::{deactivate, try_recv, is_empty, len}`, `InactiveReceiver::set_overflow`):
//! a queue of (message, receivers still to read it), a head position, per-receiver cursors,
//! overflow drops the oldest message, sending with no active receiver fails with `Inactive`.
//! What is *not* modelled: locks, wakers/listeners and the async `recv`/`broadcast` futures —
//! the channel's own concurrency is the dependency's business, not hypercore's.
#![allow(missing_docs, dead_code, clippy::all)]
use std::cell::RefCell;
use std::rc::Rc;

#[derive(Debug)]
struct Inner<T> {
    /// messages ever queued; the live queue is `store[head..]` (popping the front only advances
    /// `head`: `Vec::remove(0)` is a memmove whose length CBMC cannot keep constant)
    store: Vec<(T, usize)>,
    head: usize,
    capacity: usize,
    receiver_count: usize,
    inactive_receiver_count: usize,
    sender_count: usize,
    head_pos: u64,
    overflow: bool,
    await_active: bool,
    is_closed: bool,
}

impl<T> Inner<T> {
    fn qlen(&self) -> usize {
        self.store.len() - self.head
    }
    fn close_channel(&mut self) {
        if self.receiver_count == 0 && self.inactive_receiver_count == 0 {
            self.is_closed = true;
        }
    }
}

pub fn broadcast<T>(cap: usize) -> (Sender<T>, Receiver<T>) {
    assert!(cap > 0, "capacity cannot be zero");
    let inner = Rc::new(RefCell::new(Inner {
        store: Vec::new(),
        head: 0,
        capacity: cap,
        receiver_count: 1,
        inactive_receiver_count: 0,
        sender_count: 1,
        head_pos: 0,
        overflow: false,
        await_active: true,
        is_closed: false,
    }));
    (Sender { inner: inner.clone() }, Receiver { inner, pos: 0 })
}

#[derive(Debug)]
pub struct Sender<T> {
    inner: Rc<RefCell<Inner<T>>>,
}
unsafe impl<T: Send> Send for Sender<T> {}
unsafe impl<T: Send> Sync for Sender<T> {}

impl<T> Sender<T> {
    pub fn capacity(&self) -> usize {
        self.inner.borrow().capacity
    }
    pub fn set_overflow(&mut self, overflow: bool) {
        self.inner.borrow_mut().overflow = overflow;
    }
    pub fn set_await_active(&mut self, await_active: bool) {
        self.inner.borrow_mut().await_active = await_active;
    }
    pub fn is_empty(&self) -> bool {
        self.inner.borrow().qlen() == 0
    }
    pub fn len(&self) -> usize {
        self.inner.borrow().qlen()
    }
    pub fn receiver_count(&self) -> usize {
        self.inner.borrow().receiver_count
    }
    pub fn is_closed(&self) -> bool {
        self.inner.borrow().is_closed
    }
    pub fn new_receiver(&self) -> Receiver<T> {
        let mut inner = self.inner.borrow_mut();
        inner.receiver_count += 1;
        let pos = inner.head_pos + inner.qlen() as u64;
        Receiver { inner: self.inner.clone(), pos }
    }
}

impl<T: Clone> Sender<T> {
    pub fn try_broadcast(&self, msg: T) -> Result<Option<T>, TrySendError<T>> {
        let mut ret = None;
        let mut inner = self.inner.borrow_mut();
        if inner.is_closed {
            return Err(TrySendError::Closed(msg));
        } else if inner.receiver_count == 0 {
            assert!(inner.inactive_receiver_count != 0);
            return Err(TrySendError::Inactive(msg));
        } else if inner.qlen() == inner.capacity {
            if inner.overflow {
                let h = inner.head;
                ret = Some(inner.store[h].0.clone());
                inner.head = h + 1;
            } else {
                return Err(TrySendError::Full(msg));
            }
        }
        let receiver_count = inner.receiver_count;
        inner.store.push((msg, receiver_count));
        if ret.is_some() {
            inner.head_pos += 1;
        }
        Ok(ret)
    }
}

impl<T> Drop for Sender<T> {
    fn drop(&mut self) {
        let mut inner = self.inner.borrow_mut();
        inner.sender_count -= 1;
        if inner.sender_count == 0 {
            inner.is_closed = true;
        }
    }
}

impl<T> Clone for Sender<T> {
    fn clone(&self) -> Self {
        self.inner.borrow_mut().sender_count += 1;
        Sender { inner: self.inner.clone() }
    }
}

#[derive(Debug)]
pub struct Receiver<T> {
    inner: Rc<RefCell<Inner<T>>>,
    pos: u64,
}
unsafe impl<T: Send> Send for Receiver<T> {}
unsafe impl<T: Send> Sync for Receiver<T> {}

impl<T> Receiver<T> {
    pub fn is_empty(&self) -> bool {
        self.inner.borrow().qlen() == 0
    }
    pub fn len(&self) -> usize {
        self.inner.borrow().qlen()
    }
    pub fn set_overflow(&mut self, overflow: bool) {
        self.inner.borrow_mut().overflow = overflow;
    }
    pub fn set_await_active(&mut self, await_active: bool) {
        self.inner.borrow_mut().await_active = await_active;
    }
    pub fn deactivate(self) -> InactiveReceiver<T> {
        self.inner.borrow_mut().inactive_receiver_count += 1;
        InactiveReceiver { inner: self.inner.clone() }
        // `self` is dropped here: receiver_count -= 1 (as in the real crate)
    }
}

impl<T: Clone> Receiver<T> {
    pub fn try_recv(&mut self) -> Result<T, TryRecvError> {
        let mut inner = self.inner.borrow_mut();
        let i = match self.pos.checked_sub(inner.head_pos) {
            Some(i) => i as usize,
            None => {
                let count = inner.head_pos - self.pos;
                self.pos = inner.head_pos;
                return Err(TryRecvError::Overflowed(count));
            }
        };
        if i >= inner.qlen() {
            return if inner.is_closed { Err(TryRecvError::Closed) } else { Err(TryRecvError::Empty) };
        }
        self.pos += 1;
        let k = inner.head + i;
        inner.store[k].1 -= 1;
        let elt = inner.store[k].0.clone();
        if inner.store[k].1 == 0 {
            assert_eq!(i, 0);
            inner.head += 1;
            inner.head_pos += 1;
        }
        Ok(elt)
    }
}

impl<T> Drop for Receiver<T> {
    fn drop(&mut self) {
        let mut inner = self.inner.borrow_mut();
        // unread messages no longer wait for this receiver
        let start = match self.pos.checked_sub(inner.head_pos) {
            Some(i) => i as usize,
            None => 0,
        };
        let mut i = start;
        while i < inner.qlen() {
            let k = inner.head + i;
            inner.store[k].1 -= 1;
            i += 1;
        }
        while inner.qlen() > 0 && inner.store[inner.head].1 == 0 {
            inner.head += 1;
            inner.head_pos += 1;
        }
        inner.receiver_count -= 1;
        inner.close_channel();
    }
}

#[derive(Debug)]
pub struct InactiveReceiver<T> {
    inner: Rc<RefCell<Inner<T>>>,
}
unsafe impl<T: Send> Send for InactiveReceiver<T> {}
unsafe impl<T: Send> Sync for InactiveReceiver<T> {}

impl<T> InactiveReceiver<T> {
    pub fn set_overflow(&mut self, overflow: bool) {
        self.inner.borrow_mut().overflow = overflow;
    }
    pub fn set_await_active(&mut self, await_active: bool) {
        self.inner.borrow_mut().await_active = await_active;
    }
}

impl<T> Drop for InactiveReceiver<T> {
    fn drop(&mut self) {
        let mut inner = self.inner.borrow_mut();
        inner.inactive_receiver_count -= 1;
        inner.close_channel();
    }
}

#[derive(Debug, PartialEq, Eq, Clone, Copy)]
pub enum TrySendError<T> {
    Full(T),
    Closed(T),
    Inactive(T),
}

#[derive(Debug, PartialEq, Eq, Clone, Copy)]
pub enum TryRecvError {
    Overflowed(u64),
    Empty,
    Closed,
}
