use proc_macro::TokenStream;
#[proc_macro_attribute]
pub fn instrument(_args: TokenStream, item: TokenStream) -> TokenStream { item }
