//! Fast, SIMD-accelerated CRC32 (IEEE) checksum computation.
//!
//! ## Usage
//!
//! ### Simple usage
//!
//! For simple use-cases, you can call the [`hash()`] convenience function to
//! directly compute the CRC32 checksum for a given byte slice:
//!
//! ```rust
//! let checksum = crc32fast::hash(b"foo bar baz");
//! ```
//!
//! ### Advanced usage
//!
//! For use-cases that require more flexibility or performance, for example when
//! processing large amounts of data, you can create and manipulate a [`Hasher`]:
//!
//! ```rust
//! use crc32fast::Hasher;
//!
//! let mut hasher = Hasher::new();
//! hasher.update(b"foo bar baz");
//! let checksum = hasher.finalize();
//! ```
//!
//! ## Performance
//!
//! This crate contains multiple CRC32 implementations:
//!
//! - A fast baseline implementation which processes up to 16 bytes per iteration
//! - An optimized implementation for modern `x86` using `sse` and `pclmulqdq` instructions
//! - Wider `x86` implementations using `vpclmulqdq` on 256-bit (`avx2`) and 512-bit (`avx512f`)
//!   registers (available when built with Rust 1.89 or newer)
//! - An optimized implementation for `aarch64` using `crc32` instructions
//!
//! Calling the [`Hasher::new`] constructor at runtime will perform a feature detection to select the most
//! optimal implementation for the current CPU feature set.

#![cfg_attr(not(feature = "std"), no_std)]
#![deny(missing_docs)]
use core::fmt;
use core::hash;

mod baseline;
mod combine;
mod specialized;
mod table;

/// Computes the CRC32 hash of a byte slice.
///
/// Check out [`Hasher`] for more advanced use-cases.
pub fn hash(buf: &[u8]) -> u32 {
    let mut h = Hasher::new();
    h.update(buf);
    h.finalize()
}

#[derive(Clone)]
enum State {
    Baseline(baseline::State),
    Specialized(specialized::State),
}

#[derive(Clone)]
/// Represents an in-progress CRC32 computation.
pub struct Hasher {
    amount: u64,
    state: State,
}

const DEFAULT_INIT_STATE: u32 = 0;

impl Hasher {
    /// Create a new `Hasher`.
    ///
    /// This will perform a CPU feature detection at runtime to select the most
    /// optimal implementation for the current processor architecture.
    pub fn new() -> Self {
        Self::new_with_initial(DEFAULT_INIT_STATE)
    }

    /// Create a new `Hasher` with an initial CRC32 state.
    ///
    /// This works just like `Hasher::new`, except that it allows for an initial
    /// CRC32 state to be passed in.
    pub fn new_with_initial(init: u32) -> Self {
        Self::new_with_initial_len(init, 0)
    }

    /// Create a new `Hasher` with an initial CRC32 state.
    ///
    /// As `new_with_initial`, but also accepts a length (in bytes). The
    /// resulting object can then be used with `combine` to compute `crc(a ||
    /// b)` from `crc(a)`, `crc(b)`, and `len(b)`.
    pub fn new_with_initial_len(init: u32, amount: u64) -> Self {
        Self::internal_new_specialized(init, amount)
            .unwrap_or_else(|| Self::internal_new_baseline(init, amount))
    }

    #[doc(hidden)]
    // Internal-only API. Don't use.
    pub fn internal_new_baseline(init: u32, amount: u64) -> Self {
        Hasher {
            amount,
            state: State::Baseline(baseline::State::new(init)),
        }
    }

    #[doc(hidden)]
    // Internal-only API. Don't use.
    pub fn internal_new_specialized(init: u32, amount: u64) -> Option<Self> {
        {
            if let Some(state) = specialized::State::new(init) {
                return Some(Hasher {
                    amount,
                    state: State::Specialized(state),
                });
            }
        }
        None
    }

    /// Process the given byte slice and update the hash state.
    pub fn update(&mut self, buf: &[u8]) {
        self.amount += buf.len() as u64;
        match self.state {
            State::Baseline(ref mut state) => state.update(buf),
            State::Specialized(ref mut state) => state.update(buf),
        }
    }

    /// Finalize the hash state and return the computed CRC32 value.
    pub fn finalize(self) -> u32 {
        match self.state {
            State::Baseline(state) => state.finalize(),
            State::Specialized(state) => state.finalize(),
        }
    }

    /// Reset the hash state.
    pub fn reset(&mut self) {
        self.amount = 0;
        match self.state {
            State::Baseline(ref mut state) => state.reset(),
            State::Specialized(ref mut state) => state.reset(),
        }
    }

    /// Combine the hash state with the hash state for the subsequent block of bytes.
    pub fn combine(&mut self, other: &Self) {
        self.amount += other.amount;
        let other_crc = other.clone().finalize();
        match self.state {
            State::Baseline(ref mut state) => state.combine(other_crc, other.amount),
            State::Specialized(ref mut state) => state.combine(other_crc, other.amount),
        }
    }
}

impl fmt::Debug for Hasher {
    fn fmt(&self, f: &mut fmt::Formatter) -> fmt::Result {
        f.debug_struct("crc32fast::Hasher").finish()
    }
}

impl Default for Hasher {
    fn default() -> Self {
        Self::new()
    }
}

impl hash::Hasher for Hasher {
    fn write(&mut self, bytes: &[u8]) {
        self.update(bytes)
    }

    fn finish(&self) -> u64 {
        u64::from(self.clone().finalize())
    }
}

#[cfg(test)]
mod test {
    use super::Hasher;

    quickcheck::quickcheck! {
        fn combine(bytes_1: Vec<u8>, bytes_2: Vec<u8>) -> bool {
            let mut hash_a = Hasher::new();
            hash_a.update(&bytes_1);
            hash_a.update(&bytes_2);
            let mut hash_b = Hasher::new();
            hash_b.update(&bytes_2);
            let mut hash_c = Hasher::new();
            hash_c.update(&bytes_1);
            hash_c.combine(&hash_b);

            hash_a.finalize() == hash_c.finalize()
        }

        fn combine_from_len(bytes_1: Vec<u8>, bytes_2: Vec<u8>) -> bool {
            let mut hash_a = Hasher::new();
            hash_a.update(&bytes_1);

            let mut hash_b = Hasher::new();
            hash_b.update(&bytes_2);

            let mut hash_ab = Hasher::new();
            hash_ab.update(&bytes_1);
            hash_ab.update(&bytes_2);
            let ab = hash_ab.finalize();

            hash_a.combine(&hash_b);
            hash_a.finalize() == ab
        }
    }
}
