const POLY: u32 = 0xedb88320;

static X2N_TABLE: [u32; 32] = [
    0x00800000, 0x00008000, 0xedb88320, 0xb1e6b092, 0xa06a2517, 0xed627dae, 0x88d14467, 0xd7bbfe6a,
    0xec447f11, 0x8e7ea170, 0x6427800e, 0x4d47bae0, 0x09fe548f, 0x83852d0f, 0x30362f1a, 0x7b5a9cc3,
    0x31fec169, 0x9fec022a, 0x6c8dedc4, 0x15d6874d, 0x5fde7a4e, 0xbad90e37, 0x2e4e5eef, 0x4eaba214,
    0xa8a472c0, 0x429a969e, 0x148d302a, 0xc40ba6d0, 0xc4e22c3c, 0x40000000, 0x20000000, 0x08000000,
];

// Calculates a(x) multiplied by b(x) modulo p(x), where p(x) is the CRC polynomial,
// reflected. For speed, this requires that a not be zero.
fn multiply(a: u32, mut b: u32) -> u32 {
    let mut p = 0u32;

    for i in 0..32 {
        p ^= b & ((a >> (31 - i)) & 1).wrapping_neg();
        b = (b >> 1) ^ ((b & 1).wrapping_neg() & POLY);
    }

    p
}

pub(crate) fn combine(crc1: u32, crc2: u32, len2: u64) -> u32 {
    // Special case: If the length of the second chunk is zero, return the hash
    // of the first chunk.
    if len2 == 0 {
        return crc1;
    }

    // We are padding the first checksum with len2-amount of zeroes. For efficiency,
    // this is done in powers-of-two via a lookup table rather than one by one.
    let mut p = crc1;
    let n = 64 - len2.leading_zeros();
    for i in 0..n {
        if (len2 >> i & 1) != 0 {
            p = multiply(X2N_TABLE[(i & 0x1F) as usize], p);
        }
    }

    p ^ crc2
}

#[test]
fn golden() {
    assert_eq!(combine(0x0, 0x1, 0x0), 0x0);
    assert_eq!(combine(0xc401f8c9, 0x00000000, 0x0), 0xc401f8c9);
    assert_eq!(combine(0x7cba3d5e, 0xe7466d39, 0xb), 0x76365c4f);
    assert_eq!(combine(0x576c62d6, 0x123256e1, 0x47), 0x579a636);
    assert_eq!(combine(0x4f626f9a, 0x9e5ccbf5, 0xa59d), 0x98d43168);
    assert_eq!(combine(0xa09b8a88, 0x815b0f48, 0x40f39511), 0xd7a5f79);
    assert_eq!(
        combine(0x7f6a4306, 0xbc929646, 0x828cde72b3e25301),
        0xef922dda
    );
}
