use crate::table::CRC32_TABLE;

#[derive(Clone)]
pub struct State {
    state: u32,
}

impl State {
    pub fn new(state: u32) -> Self {
        State { state }
    }

    pub fn update(&mut self, buf: &[u8]) {
        self.state = update_fast_16(self.state, buf);
    }

    pub fn finalize(self) -> u32 {
        self.state
    }

    pub fn reset(&mut self) {
        self.state = 0;
    }

    pub fn combine(&mut self, other: u32, amount: u64) {
        self.state = crate::combine::combine(self.state, other, amount);
    }
}

pub(crate) fn update_fast_16(prev: u32, mut buf: &[u8]) -> u32 {
    const UNROLL: usize = 4;
    const BYTES_AT_ONCE: usize = 16 * UNROLL;

    let mut crc = !prev;

    while buf.len() >= BYTES_AT_ONCE {
        for _ in 0..UNROLL {
            let w0 = u32::from_le_bytes([buf[0], buf[1], buf[2], buf[3]]) ^ crc;
            crc = CRC32_TABLE[0x0][buf[0xf] as usize]
                ^ CRC32_TABLE[0x1][buf[0xe] as usize]
                ^ CRC32_TABLE[0x2][buf[0xd] as usize]
                ^ CRC32_TABLE[0x3][buf[0xc] as usize]
                ^ CRC32_TABLE[0x4][buf[0xb] as usize]
                ^ CRC32_TABLE[0x5][buf[0xa] as usize]
                ^ CRC32_TABLE[0x6][buf[0x9] as usize]
                ^ CRC32_TABLE[0x7][buf[0x8] as usize]
                ^ CRC32_TABLE[0x8][buf[0x7] as usize]
                ^ CRC32_TABLE[0x9][buf[0x6] as usize]
                ^ CRC32_TABLE[0xa][buf[0x5] as usize]
                ^ CRC32_TABLE[0xb][buf[0x4] as usize]
                ^ CRC32_TABLE[0xc][(w0 >> 24) as usize]
                ^ CRC32_TABLE[0xd][((w0 >> 16) & 0xFF) as usize]
                ^ CRC32_TABLE[0xe][((w0 >> 8) & 0xFF) as usize]
                ^ CRC32_TABLE[0xf][(w0 & 0xFF) as usize];
            buf = &buf[16..];
        }
    }

    update_slow(!crc, buf)
}

pub(crate) fn update_slow(prev: u32, buf: &[u8]) -> u32 {
    let mut crc = !prev;

    for &byte in buf.iter() {
        crc = CRC32_TABLE[0][((crc as u8) ^ byte) as usize] ^ (crc >> 8);
    }

    !crc
}

#[cfg(test)]
mod test {
    #[test]
    fn slow() {
        assert_eq!(super::update_slow(0, b""), 0);

        // test vectors from the iPXE project (input and output are bitwise negated)
        assert_eq!(super::update_slow(!0x12345678, b""), !0x12345678);
        assert_eq!(super::update_slow(!0xffffffff, b"hello world"), !0xf2b5ee7a);
        assert_eq!(super::update_slow(!0xffffffff, b"hello"), !0xc9ef5979);
        assert_eq!(super::update_slow(!0xc9ef5979, b" world"), !0xf2b5ee7a);

        // Some vectors found on Rosetta code
        assert_eq!(super::update_slow(0, b"\x00\x00\x00\x00\x00\x00\x00\x00\x00\x00\x00\x00\x00\x00\x00\x00\x00\x00\x00\x00\x00\x00\x00\x00\x00\x00\x00\x00\x00\x00\x00\x00"), 0x190A55AD);
        assert_eq!(super::update_slow(0, b"\xFF\xFF\xFF\xFF\xFF\xFF\xFF\xFF\xFF\xFF\xFF\xFF\xFF\xFF\xFF\xFF\xFF\xFF\xFF\xFF\xFF\xFF\xFF\xFF\xFF\xFF\xFF\xFF\xFF\xFF\xFF\xFF"), 0xFF6CAB0B);
        assert_eq!(super::update_slow(0, b"\x00\x01\x02\x03\x04\x05\x06\x07\x08\x09\x0A\x0B\x0C\x0D\x0E\x0F\x10\x11\x12\x13\x14\x15\x16\x17\x18\x19\x1A\x1B\x1C\x1D\x1E\x1F"), 0x91267E8A);
    }

    quickcheck::quickcheck! {
        fn fast_16_is_the_same_as_slow(crc: u32, bytes: Vec<u8>) -> bool {
            super::update_fast_16(crc, &bytes) == super::update_slow(crc, &bytes)
        }
    }
}
