// Verification build of crc32fast 1.5.1: lib.rs, baseline.rs, table.rs and combine.rs are the
// unmodified crate sources; only this file differs: it is the crate's own portable fallback
// branch (no SIMD), selected unconditionally, because the x86 branch detects CPU features with
// inline assembly (cpuid), which Kani cannot execute.  `Hasher` therefore always runs the real
// table-driven baseline algorithm.
#[derive(Clone)]
pub enum State {}
impl State {
    pub fn new(_: u32) -> Option<Self> {
        None
    }

    pub fn update(&mut self, _buf: &[u8]) {
        match *self {}
    }

    pub fn finalize(self) -> u32 {
        match self {}
    }

    pub fn reset(&mut self) {
        match *self {}
    }

    pub fn combine(&mut self, _other: u32, _amount: u64) {
        match *self {}
    }
}
