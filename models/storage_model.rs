//! MODEL of `hypercore::storage` used by the S-harnesses (overlay variant "s"): the overlay puts this
//! file in place of `src/storage/mod.rs`.  `core.rs` and every component it drives (oplog, tree,
//! bitfield, block store) are compiled unchanged against it.
//!
//! Why a model: the real `Storage` holds four `Box<dyn RandomAccess>` whose methods return
//! `Pin<Box<dyn Future>>`; in CBMC every poll of such a future is a function-pointer call that fans
//! out to all futures of the same type, and the backends themselves are I/O.  This is the
//! "environment = nondeterministic stub" rule: storage is the environment of `core.rs`.
//!
//! Semantics = `random-access-memory` 3.0 (the backend the crate's own tests use), byte for byte:
//!   read(off,len)  : Err(OutOfBounds) if off+len > length, else the bytes (holes read as zero)
//!   write(off,data): extends the length to off+len if larger; gap filled with zeros
//!   del(off,len)   : Err(OutOfBounds) if off > length; no-op if len == 0; truncate(off) if
//!                    off+len >= length; else zero-fill
//!   truncate(len)  : sets the length (zero-fills what is cut off / extends with zeros)
//!   len()          : length
//! and the instruction interpreter of the real `Storage::{read_infos_to_vec, flush_infos}`
//! (same order of operations, same miss/allow_miss rules, stop at the first error).
//!
//! Instrumentation (what the harness controls / observes):
//!   * `ops`      ordinal of the next storage operation (reads, lens, writes, dels, truncates);
//!   * `muts`     ordinal of the next *mutating* operation;
//!   * `fault_op` the operation with this ordinal fails (returns an error, has no effect)  — C10;
//!   * `crash_mut` the process dies before the mutating operation with this ordinal: it and every
//!                later operation of any kind fail without effect                        — C02;
//!   * `tear`     with `crash_mut`: if the dying operation is a write, its first `tear` bytes do
//!                reach the store (the file is extended only that far)                     — C07;
//!   * `log`      journal of the mutating operations that took effect: (store, kind, index, len).
//! Each store is a fixed array plus a length (no heap, no loops over symbolic bounds); exceeding a
//! capacity is `assert!(false)`: a stated bound, reported, never assumed away.
#![allow(missing_docs, dead_code, unsafe_code, static_mut_refs, unreachable_pub, missing_debug_implementations, clippy::all)]

use crate::{
    common::{Store, StoreInfo, StoreInfoInstruction, StoreInfoType},
    HypercoreError,
};
use random_access_storage::{RandomAccess, RandomAccessError};
use std::fmt::Debug;

/// Supertrait for Storage (kept so that `lib.rs`'s re-export compiles; unused by the model)
pub trait StorageTraits: RandomAccess + Debug {}
impl<T: RandomAccess + Debug> StorageTraits for T {}

pub const OPLOG_CAP: usize = 8192 + 1024;
pub const TREE_CAP: usize = 40 * 32;
pub const BITFIELD_CAP: usize = 4096;
pub const DATA_CAP: usize = 64;
pub const LOG_CAP: usize = 24;

pub const K_WRITE: u8 = 1;
pub const K_DEL: u8 = 2;
pub const K_TRUNC: u8 = 3;

#[derive(Clone, Copy, Debug, PartialEq, Eq)]
pub struct LogRec {
    pub store: u8, // 0 tree, 1 data, 2 bitfield, 3 oplog
    pub kind: u8,
    pub index: u64,
    pub len: u64,
}

/// One file: flat byte buffer (a static of its own, see below) + length.
pub struct File {
    pub len: &'static mut usize,
    pub buf: &'static mut [u8],
}

impl File {
    fn cap(&self) -> usize {
        self.buf.len()
    }
    fn read(&self, off: u64, len: u64) -> Result<Vec<u8>, u64> {
        // (offset + length) > self.length -> OutOfBounds
        let n = self.cap() as u64;
        if off > n || len > n || (off + len) as usize > *self.len {
            return Err(*self.len as u64);
        }
        let (o, l) = (off as usize, len as usize);
        let mut v = vec![0u8; l];
        let mut i = 0;
        while i < l {
            v[i] = self.buf[o + i];
            i += 1;
        }
        Ok(v)
    }
    fn write(&mut self, off: u64, data: &[u8]) {
        assert!(off <= self.cap() as u64 && off as usize + data.len() <= self.cap(), "storage model: capacity exceeded (stated bound)");
        let o = off as usize;
        let mut i = 0;
        while i < data.len() {
            self.buf[o + i] = data[i];
            i += 1;
        }
        if o + data.len() > *self.len {
            *self.len = o + data.len();
        }
    }
    fn zero(&mut self, from: usize, to: usize) {
        let mut i = from;
        while i < to {
            self.buf[i] = 0;
            i += 1;
        }
    }
    fn truncate(&mut self, length: u64) {
        assert!(length <= self.cap() as u64, "storage model: capacity exceeded (stated bound)");
        let l = length as usize;
        if l < *self.len {
            let e = *self.len;
            self.zero(l, e);
        }
        *self.len = l;
    }
    /// Err(()) = OutOfBounds
    fn del(&mut self, off: u64, length: u64) -> Result<(), ()> {
        if off > *self.len as u64 {
            return Err(());
        }
        if length == 0 {
            return Ok(());
        }
        if off.saturating_add(length) >= *self.len as u64 {
            self.truncate(off);
            return Ok(());
        }
        self.zero(off as usize, (off + length) as usize);
        Ok(())
    }
}

/// File contents live in flat statics of their own, not inside `Storage` (which is moved by value
/// into `Hypercore`) and not nested in an aggregate: CBMC keeps a flat array below
/// --max-field-sensitivity-array-size as one SSA symbol per byte, so bytes written at constant
/// offsets stay constants.  Two slots: writer (0) and replica (1).
pub static mut TREE0: [u8; TREE_CAP] = [0; TREE_CAP];
pub static mut TREE1: [u8; TREE_CAP] = [0; TREE_CAP];
pub static mut DATA0: [u8; DATA_CAP] = [0; DATA_CAP];
pub static mut DATA1: [u8; DATA_CAP] = [0; DATA_CAP];
pub static mut BITF0: [u8; BITFIELD_CAP] = [0; BITFIELD_CAP];
pub static mut BITF1: [u8; BITFIELD_CAP] = [0; BITFIELD_CAP];
pub static mut OPLOG0: [u8; OPLOG_CAP] = [0; OPLOG_CAP];
pub static mut OPLOG1: [u8; OPLOG_CAP] = [0; OPLOG_CAP];
pub static mut LEN_TREE: [usize; 2] = [0; 2];
pub static mut LEN_DATA: [usize; 2] = [0; 2];
pub static mut LEN_BITF: [usize; 2] = [0; 2];
pub static mut LEN_OPLOG: [usize; 2] = [0; 2];
const NO_REC: LogRec = LogRec { store: 0, kind: 0, index: 0, len: 0 };
pub static mut LOG0: [LogRec; LOG_CAP] = [NO_REC; LOG_CAP];
pub static mut LOG1: [LogRec; LOG_CAP] = [NO_REC; LOG_CAP];
pub static mut LOG_N: [usize; 2] = [0; 2];

pub fn file(id: usize, s: &Store) -> File {
    unsafe {
        match (s, id) {
            (Store::Tree, 0) => File { len: &mut LEN_TREE[0], buf: &mut TREE0[..] },
            (Store::Tree, _) => File { len: &mut LEN_TREE[1], buf: &mut TREE1[..] },
            (Store::Data, 0) => File { len: &mut LEN_DATA[0], buf: &mut DATA0[..] },
            (Store::Data, _) => File { len: &mut LEN_DATA[1], buf: &mut DATA1[..] },
            (Store::Bitfield, 0) => File { len: &mut LEN_BITF[0], buf: &mut BITF0[..] },
            (Store::Bitfield, _) => File { len: &mut LEN_BITF[1], buf: &mut BITF1[..] },
            (Store::Oplog, 0) => File { len: &mut LEN_OPLOG[0], buf: &mut OPLOG0[..] },
            (Store::Oplog, _) => File { len: &mut LEN_OPLOG[1], buf: &mut OPLOG1[..] },
        }
    }
}

pub fn journal(id: usize) -> (&'static [LogRec; LOG_CAP], usize) {
    unsafe {
        if id == 0 {
            (&LOG0, LOG_N[0])
        } else {
            (&LOG1, LOG_N[1])
        }
    }
}

/// Save data to a desired storage backend. (MODEL)
#[derive(Debug)]
pub struct Storage {
    pub id: usize,
    pub ops: u32,
    pub muts: u32,
    pub fault_op: u32,
    pub crash_mut: u32,
    pub tear: usize,
    pub dead: bool,
}

pub(crate) fn map_random_access_err(_err: RandomAccessError) -> HypercoreError {
    HypercoreError::InvalidOperation { context: String::new() }
}

fn io_fault() -> HypercoreError {
    // what `map_random_access_err` makes of an out-of-bounds class backend error (an error value
    // without an `io::Error` inside: its drop glue is recursive and costs symbolic execution time)
    HypercoreError::InvalidOperation { context: String::new() }
}

fn store_no(s: &Store) -> u8 {
    match s {
        Store::Tree => 0,
        Store::Data => 1,
        Store::Bitfield => 2,
        Store::Oplog => 3,
    }
}

impl Storage {
    /// fresh, empty storage in slot `id` (0 or 1)
    pub fn model_new_id(id: usize) -> Self {
        unsafe {
            LEN_TREE[id] = 0;
            LEN_DATA[id] = 0;
            LEN_BITF[id] = 0;
            LEN_OPLOG[id] = 0;
            LOG_N[id] = 0;
        }
        Self { id, ops: 0, muts: 0, fault_op: u32::MAX, crash_mut: u32::MAX, tear: 0, dead: false }
    }

    pub fn model_new() -> Self {
        Self::model_new_id(0)
    }

    pub fn file(&self, s: &Store) -> File {
        file(self.id, s)
    }

    /// "the machine comes back": counters and knobs reset, file contents kept
    pub fn model_restart(&mut self) {
        self.ops = 0;
        self.muts = 0;
        self.fault_op = u32::MAX;
        self.crash_mut = u32::MAX;
        self.tear = 0;
        self.dead = false;
        unsafe { LOG_N[self.id] = 0 };
    }

    /// one storage operation is about to be issued; Err = it fails without effect
    fn step(&mut self, mutating: bool) -> Result<(), HypercoreError> {
        if self.dead {
            return Err(io_fault());
        }
        let n = self.ops;
        self.ops += 1;
        if n == self.fault_op {
            return Err(io_fault());
        }
        if mutating {
            let m = self.muts;
            self.muts += 1;
            if m == self.crash_mut {
                self.dead = true;
                return Err(io_fault());
            }
        }
        Ok(())
    }

    fn record(&mut self, store: u8, kind: u8, index: u64, len: u64) {
        unsafe {
            let n = LOG_N[self.id];
            assert!(n < LOG_CAP, "storage model: journal capacity exceeded (stated bound)");
            let r = LogRec { store, kind, index, len };
            if self.id == 0 {
                LOG0[n] = r;
            } else {
                LOG1[n] = r;
            }
            LOG_N[self.id] = n + 1;
        }
    }

    fn f_len(&self, s: &Store) -> u64 {
        *self.file(s).len as u64
    }

    fn f_read(&self, s: &Store, off: u64, len: u64) -> Result<Vec<u8>, u64> {
        self.file(s).read(off, len)
    }

    fn f_write(&mut self, s: &Store, off: u64, data: &[u8]) {
        self.file(s).write(off, data)
    }

    fn f_del(&mut self, s: &Store, off: u64, len: u64) -> Result<(), ()> {
        self.file(s).del(off, len)
    }

    fn f_truncate(&mut self, s: &Store, len: u64) {
        self.file(s).truncate(len)
    }

    /// Read info from store based on given instruction. Convenience method to `read_infos`.
    pub(crate) fn read_info(
        &mut self,
        info_instruction: StoreInfoInstruction,
    ) -> Result<StoreInfo, HypercoreError> {
        let mut infos = self.read_infos_to_vec(&[info_instruction])?;
        Ok(infos
            .pop()
            .expect("Should have gotten one info with one instruction"))
    }

    /// Read infos from stores based on given instructions
    pub(crate) fn read_infos(
        &mut self,
        info_instructions: &[StoreInfoInstruction],
    ) -> Result<Box<[StoreInfo]>, HypercoreError> {
        let infos = self.read_infos_to_vec(info_instructions)?;
        Ok(infos.into_boxed_slice())
    }

    /// Reads infos but retains them as a Vec
    pub(crate) fn read_infos_to_vec(
        &mut self,
        info_instructions: &[StoreInfoInstruction],
    ) -> Result<Vec<StoreInfo>, HypercoreError> {
        let mut infos: Vec<StoreInfo> = Vec::with_capacity(info_instructions.len());
        for instruction in info_instructions.iter() {
            match instruction.info_type {
                StoreInfoType::Content => {
                    let read_length = match instruction.length {
                        Some(length) => length,
                        None => {
                            self.step(false)?;
                            self.f_len(&instruction.store)
                        }
                    };
                    self.step(false)?;
                    let info = match self.f_read(&instruction.store, instruction.index, read_length) {
                        Ok(buf) => StoreInfo::new_content(instruction.store.clone(), instruction.index, &buf),
                        Err(_length) => {
                            if instruction.allow_miss {
                                StoreInfo::new_content_miss(instruction.store.clone(), instruction.index)
                            } else {
                                return Err(HypercoreError::InvalidOperation { context: String::new() });
                            }
                        }
                    };
                    infos.push(info);
                }
                StoreInfoType::Size => {
                    self.step(false)?;
                    let length = self.f_len(&instruction.store);
                    infos.push(StoreInfo::new_size(
                        instruction.store.clone(),
                        instruction.index,
                        length - instruction.index,
                    ));
                }
            }
        }
        Ok(infos)
    }

    /// Flush info to storage. Convenience method to `flush_infos`.
    pub(crate) fn flush_info(&mut self, slice: StoreInfo) -> Result<(), HypercoreError> {
        self.flush_infos(&[slice])
    }

    /// Flush infos to storage
    pub(crate) fn flush_infos(&mut self, infos: &[StoreInfo]) -> Result<(), HypercoreError> {
        for info in infos.iter() {
            let sn = store_no(&info.store);
            match info.info_type {
                StoreInfoType::Content => {
                    if !info.miss {
                        if let Some(data) = &info.data {
                            match self.step(true) {
                                Ok(()) => {}
                                Err(e) => {
                                    // torn write: the dying operation leaves a prefix behind
                                    if self.dead && self.tear > 0 && self.muts == self.crash_mut + 1 && self.tear < data.len() {
                                        let t = self.tear;
                                        self.tear = 0;
                                        self.f_write(&info.store, info.index, &data[..t]);
                                    }
                                    return Err(e);
                                }
                            }
                            self.f_write(&info.store, info.index, data);
                            self.record(sn, K_WRITE, info.index, data.len() as u64);
                        }
                    } else {
                        self.step(true)?;
                        let length = info.length.expect("When deleting, length must be given");
                        if self.f_del(&info.store, info.index, length).is_err() {
                            return Err(HypercoreError::InvalidOperation { context: String::new() });
                        }
                        self.record(sn, K_DEL, info.index, length);
                    }
                }
                StoreInfoType::Size => {
                    if info.miss {
                        self.step(true)?;
                        self.f_truncate(&info.store, info.index);
                        self.record(sn, K_TRUNC, info.index, 0);
                    } else {
                        panic!("Flushing a size that isn't miss, is not supported");
                    }
                }
            }
        }
        Ok(())
    }

    /// (MODEL) the real constructor takes a backend factory; S-harnesses build `model_new()` directly
    pub fn open<Cb>(_create: Cb, _overwrite: bool) -> Result<Self, HypercoreError> {
        Ok(Self::model_new())
    }

    /// (MODEL)
    pub fn new_memory() -> Result<Self, HypercoreError> {
        Ok(Self::model_new())
    }

    /// (MODEL)
    #[cfg(not(target_arch = "wasm32"))]
    pub fn new_disk(_dir: &std::path::PathBuf, _overwrite: bool) -> Result<Self, HypercoreError> {
        Ok(Self::model_new())
    }
}
