#!/usr/bin/env python3
"""Build a scratch copy of /repo's *current working tree* that Kani can compile.

Nothing of hypercore's own logic is edited.  The overlay is purely additive:
  * lib.rs : `#![forbid(` -> `#![deny(` (lint level only) and one `mod verif;` line;
  * selected files get one `#[cfg(kani)] #[path=..] mod verif_x;` line appended so that the
    harness, as a *child module*, can use the parent's private items;
  * Cargo.toml: dev-dependencies/benches removed, `[patch.crates-io]` for the dependency models.
"""
import os, re, shutil, subprocess, sys

REPO = os.environ.get("VERIF_REPO", "/repo")
VERIF = os.path.dirname(os.path.dirname(os.path.abspath(__file__)))

# child harness modules: file in /repo/src  ->  harness file under /verif/harness
CHILD_MODS = {
    "core.rs": "c_core.rs",
    "oplog/mod.rs": "c_oplog.rs",
    "oplog/entry.rs": None,
    "tree/merkle_tree.rs": "c_tree.rs",
    "bitfield/dynamic.rs": "c_bitfield.rs",
    "crypto/hash.rs": "c_hash.rs",
}

BASE_MODELS = ["pretty-hash", "ed25519-dalek", "tracing", "tracing-attributes", "crc32fast"]


def strip_sections(toml: str) -> str:
    out, skip = [], False
    for line in toml.splitlines():
        m = re.match(r"^\s*\[+([^\]]+)\]+", line)
        if m:
            name = m.group(1).strip()
            skip = name.startswith("dev-dependencies") or name == "bench" or name.startswith("patch")
        if not skip:
            out.append(line)
    return "\n".join(out) + "\n"


# overlay variant "s": core.rs and everything it drives compiled against the storage MODEL
# (models/storage_model.rs in place of src/storage/mod.rs) and the async-broadcast MODEL
S_CHILD_MODS = {
    "core.rs": "s_core.rs",
}
# variant "st": the real storage/mod.rs (de-asynced) with its harness as child module
ST_CHILD_MODS = {
    "storage/mod.rs": "c_storage.rs",
    "replication/events.rs": "c_events.rs",
}


def deasync(t: str, rel: str) -> str:
    """`async fn` -> `fn`, `.await` -> `` (see variant "s" in build())."""
    t2 = re.sub(r"\basync fn\b", "fn", t)
    t2 = re.sub(r"\.await\b", "", t2)
    if re.search(r"\basync\b\s*(move\s*)?\{", t2):
        raise SystemExit("overlay: src/%s contains an async block; the de-async rewrite does not cover it" % rel)
    return t2


def cut_fn(t: str, name: str) -> str:
    """Remove `fn name` (with its doc comments / attributes) from source text t by brace matching."""
    m = re.search(r"\n([ \t]*(///[^\n]*\n|#\[[^\n]*\]\n)[ \t]*)*[ \t]*pub(\([a-z]+\))? (async )?fn %s\b" % re.escape(name), t)
    if not m:
        return t
    i = t.index("{", m.end())
    depth, j = 0, i
    while j < len(t):
        if t[j] == "{":
            depth += 1
        elif t[j] == "}":
            depth -= 1
            if depth == 0:
                break
        j += 1
    return t[:m.start() + 1] + t[j + 1:]


def build(dst: str, models=(), real_blake2=False, cfgs=(), variant="model"):
    """Create the overlay at dst from REPO's working tree. Returns dst."""
    if os.path.exists(dst):
        shutil.rmtree(dst)
    os.makedirs(dst)
    shutil.copytree(os.path.join(REPO, "src"), os.path.join(dst, "src"))
    for f in ("Cargo.toml", "Cargo.lock"):
        shutil.copy(os.path.join(REPO, f), os.path.join(dst, f))

    # --- private copy of the harness sources (playback tests get appended to this copy only)
    hdir = os.path.join(dst, "verif_harness")
    shutil.copytree(os.path.join(VERIF, "harness"), hdir)

    # --- the crate's own unit-test modules need dev-dependencies the overlay does not carry; they
    # are irrelevant to the harnesses, so they are switched off in the copy (test-only code)
    for root, _, files in os.walk(os.path.join(dst, "src")):
        for f in files:
            if f.endswith(".rs"):
                p = os.path.join(root, f)
                t = open(p).read()
                t2 = t.replace("#[cfg(test)]", "#[cfg(hc_overlay_never)]").replace("cfg_attr(test,", "cfg_attr(hc_overlay_never,")
                if t2 != t:
                    open(p, "w").write(t2)

    # --- lib.rs
    lib = os.path.join(dst, "src/lib.rs")
    s = open(lib).read()
    if "#![forbid(" not in s and "#![deny(" not in s:
        pass
    s = s.replace("#![forbid(", "#![deny(")
    s += '\n#[cfg(kani)]\n#[path = "%s/mod.rs"]\nmod verif;\n' % hdir
    open(lib, "w").write(s)

    # --- variant "s": the storage layer (environment of core.rs) is replaced by its model
    child_mods = dict(CHILD_MODS)
    extra_children = {}
    if variant == "st":
        # the REAL storage/mod.rs, de-asynced, against the sync RandomAccess trait model; the three
        # constructors that build futures-returning callbacks are cut (the harness, a child module,
        # builds `Storage { .. }` directly); core.rs/builder.rs are de-asynced as in variant "s"
        sp = os.path.join(dst, "src/storage/mod.rs")
        if not os.path.exists(sp):
            raise SystemExit("overlay: /repo/src/storage/mod.rs is missing")
        t = open(sp).read()
        for fn in ("open", "new_memory", "new_disk"):
            t = cut_fn(t, fn)
        open(sp, "w").write(deasync(t, "storage/mod.rs"))
        for rel in ("core.rs", "builder.rs"):
            fp = os.path.join(dst, "src", rel)
            src_text = deasync(open(fp).read(), rel)
            open(fp, "w").write(src_text)
        models = list(models) + ["async-broadcast", "random-access-storage-sync", "random-access-memory-sync", "random-access-disk-sync"]
        extra_children = dict(ST_CHILD_MODS)
    if variant == "s":
        if not os.path.exists(os.path.join(dst, "src/storage/mod.rs")):
            raise SystemExit("overlay: /repo/src/storage/mod.rs is missing")
        shutil.copy(os.path.join(VERIF, "models/storage_model.rs"), os.path.join(dst, "src/storage/mod.rs"))
        child_mods.pop("storage/mod.rs", None)
        # de-async: with a storage layer that never yields, `async fn`/`.await` compute exactly what
        # the plain call computes.  Kani lowers a coroutine's saved locals into overlapping (union)
        # variant fields, which defeats CBMC's constant propagation for everything that crosses an
        # await point (measured: Hypercore::new on empty storage > 9 GB); the mechanical rewrite
        # `async fn` -> `fn`, `.await` -> `` of the files that only orchestrate storage calls removes
        # the coroutine and nothing else.  Regenerated from /repo's source on every run.
        for rel in ("core.rs", "builder.rs"):
            fp = os.path.join(dst, "src", rel)
            src_text = deasync(open(fp).read(), rel)
            open(fp, "w").write(src_text)
        extra_children = dict(S_CHILD_MODS)
        models = list(models) + ["async-broadcast"]

    # --- child modules
    for rel, hf in list(child_mods.items()) + list(extra_children.items()):
        if hf is None:
            continue
        p = os.path.join(dst, "src", rel)
        hp = os.path.join(hdir, hf)
        if not os.path.exists(p):
            raise SystemExit("overlay: /repo/src/%s is missing; cannot attach harness" % rel)
        if not os.path.exists(hp):
            continue
        modname = "verif_" + hf[:-3]
        with open(p, "a") as fh:
            fh.write('\n#[cfg(kani)]\n#[path = "%s"]\nmod %s;\n' % (hp, modname))

    # --- Cargo.toml
    ct = os.path.join(dst, "Cargo.toml")
    t = strip_sections(open(ct).read())
    t += "\n[workspace]\n\n[patch.crates-io]\n"
    names = list(BASE_MODELS) + list(models)
    if not real_blake2 and "blake2" not in names:
        names.append("blake2")
    for n in names:
        crate = n[:-5] if n.endswith("-sync") else n
        t += '%s = { path = "%s/models/%s" }\n' % (crate, VERIF, n)
    t += "\n[lints.rust]\nunexpected_cfgs = { level = \"allow\" }\n"
    open(ct, "w").write(t)
    return dst


if __name__ == "__main__":
    d = sys.argv[1]
    build(d, real_blake2="--real-blake2" in sys.argv)
    print(d)
