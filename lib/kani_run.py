#!/usr/bin/env python3
"""Compile the overlay with kani-compiler once, then drive goto-instrument/CBMC per harness.

Pipeline per harness (identical to what kani-driver 0.68 runs, learnt from `cargo kani --verbose`):
  goto-cc --function <mangled>            set entry point
  goto-instrument --add-library --no-malloc-may-fail
  goto-instrument --generate-function-body-options assert-false-assume-false
                  --generate-function-body '.*' --drop-unused-functions
  goto-instrument --ensure-one-backedge-per-target
  cbmc <kani's flags> --unwind G --unwindset L:N,... --unwinding-assertions --json-ui
Running CBMC ourselves gives per-loop unwind bounds (selected by regex over `--show-loops`),
hard time/memory caps per harness and 16-way parallelism over harnesses.
"""
import fcntl, json, os, re, resource, shutil, signal, subprocess, sys, time
from concurrent.futures import ThreadPoolExecutor

VERIF = os.path.dirname(os.path.dirname(os.path.abspath(__file__)))
CACHE = os.environ.get("VERIF_CACHE", os.path.join(VERIF, ".cache"))
# --no-assertion-reach-checks: Kani's default instrumentation adds one always-"failing" reachability
# marker per assertion; under --json-ui CBMC embeds a full trace for every failed property, which
# made each output ~3 GB and each run ~2.5x slower.  Non-vacuity is established by the explicit
# kani::cover!(true) twin at the end of every harness instead.
KANI_FLAGS = ["-Z", "stubbing", "-Z", "unstable-options", "--no-memory-safety-checks", "--no-assertion-reach-checks"] + os.environ.get("VERIF_KANI_EXTRA", "").split()
CBMC_FLAGS = [
    "--no-malloc-may-fail", "--no-undefined-shift-check", "--no-signed-overflow-check",
    "--no-bounds-check", "--no-pointer-check", "--nan-check", "--no-self-loops-to-assumptions",
    "--no-pointer-primitive-check", "--object-bits", "16", "--sat-solver", "cadical",
    "--slice-formula", "--max-field-sensitivity-array-size", "300",
]
ENV = dict(os.environ, CARGO_NET_OFFLINE="true", CARGO_TERM_COLOR="never")
ENV.pop("RUSTFLAGS", None)
ENV.pop("RUSTUP_TOOLCHAIN", None)


def log(*a):
    print("[kani_run]", *a, file=sys.stderr, flush=True)


def codegen(overlay_dir, patterns, variant="model", log_path=None, timeout=1800):
    """Run `cargo kani --only-codegen` for harnesses matching patterns.
    Returns list of harness metadata dicts (pretty_name, mangled_name, goto_file)."""
    target = os.path.join(CACHE, "target-" + variant)
    os.makedirs(target, exist_ok=True)
    lock = open(os.path.join(CACHE, "lock-" + variant), "w")
    fcntl.flock(lock, fcntl.LOCK_EX)
    try:
        cmd = ["cargo", "kani", "--only-codegen"] + KANI_FLAGS + ["--target-dir", target]
        for p in patterns:
            cmd += ["--harness", p]
        t0 = time.time()
        p = subprocess.run(cmd, cwd=overlay_dir, env=ENV, stdout=subprocess.PIPE,
                           stderr=subprocess.STDOUT, text=True, timeout=timeout)
        if log_path:
            open(log_path, "w").write(p.stdout)
        if p.returncode != 0:
            raise RuntimeError("kani codegen failed (exit %d):\n%s" % (p.returncode, p.stdout[-6000:]))
        # metadata of *this* overlay's build (several checks may share the cache concurrently): the
        # harness source paths recorded in the metadata point into the overlay directory
        base = os.path.join(target, "kani/x86_64-unknown-linux-gnu/debug/build/hypercore")
        metas = []
        stale_dirs = []
        for d in os.listdir(base):
            od = os.path.join(base, d, "out")
            if not os.path.isdir(od):
                continue
            for f in os.listdir(od):
                if f.endswith(".kani-metadata.json"):
                    fp = os.path.join(od, f)
                    try:
                        md = json.load(open(fp))
                    except Exception:
                        continue
                    files = [h.get("original_file", "") for h in md.get("proof_harnesses", [])]
                    if any(x.startswith(overlay_dir + "/") for x in files):
                        metas.append((os.path.getmtime(fp), fp))
                    else:
                        roots = set(x.split("/verif_harness/")[0] for x in files if "/verif_harness/" in x)
                        if roots and not any(os.path.isdir(r) for r in roots):
                            stale_dirs.append(os.path.join(base, d))
        if not metas:
            raise RuntimeError("kani metadata for this overlay not found")
        metas.sort()
        meta = json.load(open(metas[-1][1]))
        out = []
        outdir = os.path.join(overlay_dir, "goto")
        os.makedirs(outdir, exist_ok=True)
        for h in meta["proof_harnesses"]:
            short = h["pretty_name"].split("::")[-1]
            linked = h["goto_file"].replace(".symtab.out", ".out")
            if not os.path.exists(linked):
                raise RuntimeError("missing linked goto binary " + linked)
            dst = os.path.join(outdir, short + ".out")
            shutil.copy(linked, dst)
            out.append(dict(name=short, pretty=h["pretty_name"], mangled=h["mangled_name"],
                            goto=dst, stubs=[s["original"].replace(" ", "") for s in h["attributes"]["stubs"]]))
        if True:
            rc, o2, to = _run(["goto-cc", "-c", os.path.join(VERIF, "models/cprover/mem.c"), "-o", os.path.join(outdir, "cprover_mem.o")], 120)
            if rc != 0:
                raise RuntimeError("goto-cc of models/cprover/mem.c failed: " + (o2 or ""))
        # prune build dirs whose overlay no longer exists (bounds disk usage, never touches a live run)
        for full in stale_dirs:
            shutil.rmtree(full, ignore_errors=True)
        log("codegen %s: %d harnesses in %.1fs" % (patterns, len(out), time.time() - t0))
        return out
    finally:
        fcntl.flock(lock, fcntl.LOCK_UN)
        lock.close()


def _run(cmd, timeout, mem_gb=None, stdout_path=None):
    def pre():
        os.setsid()
        if mem_gb:
            lim = int(mem_gb * (1 << 30))
            resource.setrlimit(resource.RLIMIT_AS, (lim, lim))
    so = open(stdout_path, "w") if stdout_path else subprocess.PIPE
    p = subprocess.Popen(cmd, stdout=so, stderr=subprocess.STDOUT, text=True, preexec_fn=pre)
    try:
        out, _ = p.communicate(timeout=timeout)
        return p.returncode, out, False
    except subprocess.TimeoutExpired:
        try:
            os.killpg(p.pid, signal.SIGKILL)
        except ProcessLookupError:
            pass
        p.wait()
        return -9, None, True
    finally:
        if stdout_path:
            so.close()


def prepare(h):
    """goto-cc/goto-instrument steps; idempotent per harness file."""
    g = h["goto"]
    link = [g]
    if h.get("variant") == "s" or h.get("memloop") or os.environ.get("VERIF_MEMLOOP"):
        # byte-loop memcpy/memmove (models/cprover/mem.c) instead of CBMC's array-theory versions;
        # compiled once per overlay by codegen()
        link.append(os.path.join(os.path.dirname(g), "cprover_mem.o"))
    steps = [
        ["goto-cc"] + link + ["--function", h["mangled"], "-o", g],
        ["goto-instrument", "--add-library", "--no-malloc-may-fail", g, g],
        ["goto-instrument", "--generate-function-body-options", "assert-false-assume-false",
         "--generate-function-body", ".*", "--drop-unused-functions", g, g],
        ["goto-instrument", "--ensure-one-backedge-per-target", g, g],
    ]
    for s in steps:
        rc, out, to = _run(s, 600)
        if rc != 0:
            raise RuntimeError("step failed: %s\n%s" % (" ".join(s), (out or "")[-3000:]))
    rc, out, to = _run(["cbmc", "--show-loops", g], 600)
    loops = re.findall(r"^Loop (\S+):", out or "", re.M)
    h["loops"] = loops
    return h


def select_unwindset(loops, rules):
    """rules: list of (regex, bound). First matching rule wins. Returns ['name:bound', ...]."""
    sel = []
    for l in loops:
        for rx, n in rules:
            if re.search(rx, l):
                sel.append("%s:%d" % (l, n))
                break
    return sel


_DROP = ('"messageText": "Unwinding loop', '"messageText": "Not unwinding loop', '"messageText": "aborting path on assume(false)',
         '"messageText": "Unwinding recursion', '"messageText": "Not unwinding recursion')


def slim_cbmc_json(path):
    """CBMC's --json-ui --verbosity 8 output carries one object per loop iteration / aborted path
    (hundreds of MB for the page-wide loops); parsing that in Python costs gigabytes per harness.
    Stream the file and drop those progress messages; everything else (results, statistics) stays."""
    if os.environ.get("VERIF_KEEP_LOG"):
        return
    tmp = path + ".slim"
    try:
        with open(path, "r", errors="replace") as fin, open(tmp, "w") as fout:
            buf, depth, inobj = [], 0, False
            for line in fin:
                st = line.strip()
                if not inobj:
                    if st == "{" and depth == 1:
                        inobj, buf, objdepth = True, [line], 1
                        continue
                    if st.startswith("["):
                        depth += 1
                    elif st.startswith("]"):
                        depth -= 1
                    fout.write(line)
                    continue
                buf.append(line)
                objdepth += st.count("{") - st.count("}") if not st.startswith('"messageText"') else 0
                if objdepth <= 0:
                    inobj = False
                    head = "".join(buf[:3])
                    if not any(d in head for d in _DROP):
                        fout.writelines(buf)
        os.replace(tmp, path)
    except Exception:
        try:
            os.remove(tmp)
        except OSError:
            pass


def parse_cbmc_json(text):
    """Return (properties list, messages) from cbmc --json-ui output (tolerates truncation)."""
    try:
        data = json.loads(text)
    except Exception:
        # try to salvage: cbmc killed mid-output
        return None, []
    props, msgs, status = [], [], None
    for item in data:
        if "result" in item:
            props = item["result"]
        if "messageText" in item:
            msgs.append(item["messageText"])
        if "cProverStatus" in item:
            status = item["cProverStatus"]
    return props, msgs, status


def classify(props):
    """Kani's semantics over CBMC property classes."""
    res = dict(total=0, failed=[], unwind_failed=[], unsupported_failed=[], cover_sat=[],
               cover_unsat=[], success=0, reachable_checks=0, errors=0)
    for p in props:
        name = p.get("property", "")
        desc = p.get("description", "")
        st = p.get("status")
        cls = name.rsplit(".", 2)[-2] if name.count(".") >= 2 else ""
        if cls == "reachability_check":
            # Kani's assertion-reachability instrumentation: FAILURE == the guarded check is reachable
            if st == "FAILURE":
                res["reachable_checks"] += 1
            continue
        res["total"] += 1
        is_cover = cls == "cover" or desc.startswith("cover")
        if is_cover:
            if st == "FAILURE":
                res["cover_sat"].append(desc)
            elif st == "SUCCESS":
                res["cover_unsat"].append(desc)
            else:
                res["errors"] += 1
            continue
        if st == "SUCCESS":
            res["success"] += 1
            continue
        if st not in ("FAILURE",):
            res["errors"] += 1
            continue
        if st == "FAILURE":
            entry = dict(property=name, description=desc,
                         location=p.get("sourceLocation", {}), trace=p.get("trace"))
            if cls == "unwind" or "unwinding assertion" in desc:
                res["unwind_failed"].append(entry)
            elif cls == "unsupported_construct" or "is not currently supported by Kani" in desc:
                res["unsupported_failed"].append(entry)
            else:
                res["failed"].append(entry)
    return res


def run_harness(h, cfg, workdir, trace=False):
    """cfg: dict(unwind=int, unwindset=[(regex,n)], timeout=s, mem_gb=float)."""
    t0 = time.time()
    out = dict(name=h["name"], cfg=dict(unwind=cfg.get("unwind"), unwindset=cfg.get("unwindset"),
                                        timeout=cfg.get("timeout")))
    try:
        if "loops" not in h:
            prepare(h)
    except Exception as e:
        out.update(verdict="error", detail=str(e), wall_s=time.time() - t0)
        return out
    uw = select_unwindset(h["loops"], cfg.get("unwindset", []))
    cmd = ["cbmc"] + CBMC_FLAGS + [h["goto"], "--unwind", str(cfg.get("unwind", 4)),
                                   "--unwinding-assertions", "--json-ui", "--verbosity", "8"]
    if uw:
        cmd += ["--unwindset", ",".join(uw)]
    extra = list(cfg.get("extra") or [])
    if "--max-field-sensitivity-array-size" in extra:
        # CBMC honours the first occurrence: drop the default so that the harness value wins
        i = cmd.index("--max-field-sensitivity-array-size")
        del cmd[i:i + 2]
    cmd += extra
    if trace:
        cmd += ["--trace"]
    outp = os.path.join(workdir, h["name"] + (".trace" if trace else "") + ".cbmc.json")
    rc, _, timed_out = _run(cmd, cfg.get("timeout", 300), cfg.get("mem_gb", 12), stdout_path=outp)
    out["wall_s"] = round(time.time() - t0, 1)
    out["cbmc_cmd"] = " ".join(cmd)
    out["unwindset_applied"] = uw
    if timed_out:
        out.update(verdict="inconclusive", detail="timeout after %ss" % cfg.get("timeout", 300))
        return out
    slim_cbmc_json(outp)
    text = open(outp).read()
    parsed = parse_cbmc_json(text)
    if parsed[0] is None:
        oom = "std::bad_alloc" in text or "Out of memory" in text or rc in (-6, 134, -11)
        out.update(verdict="inconclusive", detail="cbmc output unparsable (rc=%s%s)" % (rc, ", out of memory" if oom else ""))
        return out
    props, msgs, status = parsed
    if not props:
        out.update(verdict="inconclusive", detail="no property results (rc=%s): %s" % (rc, " | ".join(msgs[-3:])))
        return out
    c = classify(props)
    # a loop that provably has at most a few iterations (e.g. "pop trailing partial entries") and
    # still fails its unwinding assertion does not terminate: that is a violation, not a bound issue
    for rx in cfg.get("nonterm") or []:
        moved = [f for f in c["unwind_failed"] if re.search(rx, f["property"])]
        for f in moved:
            f["description"] = "loop does not terminate within its bound (non-termination): " + f["property"]
            c["failed"].append(f)
        c["unwind_failed"] = [f for f in c["unwind_failed"] if f not in moved]
    # solver statistics from messages
    rt = [m for m in msgs if "Runtime" in m]
    out["properties"] = c["total"]
    out["success"] = c["success"]
    out["reachable_checks"] = c["reachable_checks"]
    out["cover_sat"] = len(c["cover_sat"])
    out["cover_unsat"] = len(c["cover_unsat"])
    out["runtime_msgs"] = rt[-4:]
    sol = [float(x) for m in msgs for x in re.findall(r"Runtime Solver: ([0-9.]+)s", m)]
    sym = [float(x) for m in msgs for x in re.findall(r"Runtime Symex: ([0-9.]+)s", m)]
    out["solver_s"] = round(sum(sol), 2)
    out["symex_s"] = round(sum(sym), 2)
    vc = [m for m in msgs if "VCC" in m or "variables" in m]
    out["size_msgs"] = vc[-2:]
    if c["errors"]:
        out.update(verdict="inconclusive", detail="%d properties with solver ERROR status (out of memory / solver failure)" % c["errors"])
    elif c["unsupported_failed"]:
        out.update(verdict="inconclusive", detail="unsupported construct reachable: " + c["unsupported_failed"][0]["description"])
    elif c["failed"]:
        out.update(verdict="counterexample",
                   failed=[dict(property=f["property"], description=f["description"], location=f["location"]) for f in c["failed"]])
        if trace:
            out["traces"] = {f["property"]: f["trace"] for f in c["failed"] if f.get("trace")}
    elif c["unwind_failed"]:
        out.update(verdict="inconclusive", detail="unwinding assertion failed: " + "; ".join(
            sorted(set(f["property"] for f in c["unwind_failed"]))[:6]))
    elif c["cover_unsat"] or not c["cover_sat"]:
        out.update(verdict="inconclusive", detail="vacuous: reachability witness not satisfied (%d unsat, %d sat)" % (len(c["cover_unsat"]), len(c["cover_sat"])))
    else:
        out.update(verdict="discharged")
    return out


def run_all(harnesses, cfg_of, workdir, jobs=None):
    # memory-bound machine (62 GB, no swap): cap concurrency so that jobs x per-harness limit fits
    jobs = jobs or int(os.environ.get("VERIF_JOBS", "8"))
    os.makedirs(workdir, exist_ok=True)
    results = []
    with ThreadPoolExecutor(max_workers=jobs) as ex:
        futs = [ex.submit(run_harness, h, cfg_of(h["name"]), workdir) for h in harnesses]
        for f in futs:
            r = f.result()
            log("%-44s %-14s %6.1fs %s" % (r["name"], r["verdict"], r.get("wall_s", 0), r.get("detail", "")[:150]))
            results.append(r)
    return results
