#!/usr/bin/env python3
"""dev tool: profile a (possibly still running) cbmc --json-ui --verbosity 8 output: which loops /
recursions are being unwound and how far symex got."""
import re, sys, collections
t = open(sys.argv[1]).read()
msgs = re.findall(r'"messageText": "([^"]*)"', t)
c = collections.Counter()
last = {}
for m in msgs:
    mm = re.match(r'Unwinding (loop|recursion) (\S+) iteration (\d+)', m)
    if mm:
        c[mm.group(2)] += 1
        last[mm.group(2)] = int(mm.group(3))
print("messages:", len(msgs))
for k, v in c.most_common(int(sys.argv[2]) if len(sys.argv) > 2 else 25):
    print("%7d  max-iter %4d  %s" % (v, last[k], k[-110:]))
print("LAST:", [m[:200] for m in msgs[-4:]])
