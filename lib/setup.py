#!/usr/bin/env python3
"""MANIFEST.setup_cmd: warm the Kani dependency build caches under /verif/.cache (offline).
Nothing here is needed for correctness: every check rebuilds the overlay of /repo's working tree
and, if the cache is absent, the dependencies too."""
import os, shutil, sys
sys.path.insert(0, os.path.dirname(os.path.abspath(__file__)))
import overlay, kani_run as K

def main():
    for variant in ("model", "real"):
        ov = "/var/tmp/hcverif.setup.%d" % os.getpid()
        try:
            overlay.build(ov, real_blake2=(variant == "real"))
            try:
                K.codegen(ov, ["c11_request_seek"], variant=variant)
            except Exception as e:
                print("setup: warm-up of variant %s failed (checks will rebuild): %s" % (variant, str(e)[-800:]))
        finally:
            shutil.rmtree(ov, ignore_errors=True)
    # variant "st" (real storage layer, sync RandomAccess model) and the nightly MIR dump of core.rs
    ov = "/var/tmp/hcverif.setup.%d" % os.getpid()
    try:
        overlay.build(ov, variant="st")
        try:
            K.codegen(ov, ["c13_have_from_update"], variant="st")
        except Exception as e:
            print("setup: warm-up of variant st failed (checks will rebuild): %s" % str(e)[-800:])
    finally:
        shutil.rmtree(ov, ignore_errors=True)
    try:
        import mirpath
        mirpath.dump_mir(ov)
    except Exception as e:
        print("setup: warm-up of the MIR dump failed (checks will rebuild): %s" % str(e)[-800:])
    finally:
        shutil.rmtree(ov, ignore_errors=True)
    print("setup done")

if __name__ == "__main__":
    main()
