"""Registry: which harnesses decide which property, with their bounds.

Every entry states what is symbolic and the bound; these strings are copied into the evidence.
`unwindset` rules are (regex over CBMC loop id, bound); first match wins; the global `--unwind`
stays small (unwinding assertions are always on, so an insufficient bound is reported as
inconclusive, never as a pass).
"""

# loop bounds that are the same everywhere
COMMON_RULES = [
    (r"memcmp", 70),            # Vec<u8>/[u8] equality up to 64 bytes (+1), signature compare
    (r"4Node3new", 34),         # Node::new blank scan over 32 hash bytes
    (r"4util6hash32", 34),
    (r"4util7node_eq", 34),
    (r"ref_codec.*3raw", 66),   # reference encoder raw copy (hash 32 / signature 64)
    (r"any_bytes_upto4", 6),
]

STUBS = ["std::fmt::format -> String::new() (error messages are never the subject)"]
BASE_MODELS = [
    "ed25519-dalek: idealised injective signature model (models/ed25519-dalek)",
    "tracing/tracing-attributes: #[instrument] = identity (models/tracing*)",
    "pretty-hash: same function without the `failure` dependency (models/pretty-hash)",
    "blake2: model crate (FOLD mode unless a harness switches to UF); real crate only in variant 'real'",
]


def H(tier, desc, symbolic, bound, unwind=4, rules=(), timeout=None, mem_gb=12, expect=None):
    return dict(tier=tier, desc=desc, symbolic=symbolic, bound=bound, unwind=unwind,
                rules=list(rules), timeout=timeout, mem_gb=mem_gb, expect=expect)


PROPS = {}

# --------------------------------------------------------------------------------------------- C11
_scalar = "all u64 fields fully symbolic (every varint class boundary is inside the query)"
_layout = ("scalar prefix concrete on a varint class boundary; %d fixed-width node(s) with symbolic "
           "32-byte hashes; decode prefixes at %s")
C11 = dict(
    title="Wire messages round-trip exactly and match the compact-encoding spec",
    variant="model",
    patterns=["c11_"],
    functions=[
        "hypercore::encoding::<impl CompactEncoding for Node|RequestBlock|RequestSeek|RequestUpgrade|"
        "DataBlock|DataHash|DataSeek|DataUpgrade>::{encoded_size,encode,decode}",
        "compact_encoding::{encode_var_u64,decode_u64_var,encode_usize_var,decode_usize,decode_vec,"
        "encode_vec,write_array,take_array} (real dependency code)",
        "hypercore::common::node::Node::new",
    ],
    oracle="independent reference encoder harness/ref_codec.rs (written from the JS compact-encoding spec)",
    outside=[
        "byte strings > 4 bytes (64 for signatures) and lists > 2 nodes (loop count grows with input)",
        "list-bearing messages with symbolic-width scalars *and* non-empty lists in the same query "
        "(covered separately: *_prefix for the scalars, *_layout for the lists)",
        "symbolic cut position inside list-bearing messages (cuts are concrete: field boundaries in "
        "quick, every k<n in thorough)",
    ],
    harnesses={
        "c11_uint_codec": H("quick", "u64 and usize varint codec vs reference, all prefixes", "v: u64 full range; cut k symbolic", "none (full 64-bit range)"),
        "c11_node": H("quick", "Node encode/size/decode/prefix", "index (depth<62), length: u64 full range; hash: 32 symbolic bytes; cut k symbolic", "index with < 62 trailing one bits", timeout=600),
        "c11_node_extreme_index": H("quick", "Node decode for index with >= 62 trailing one bits", "index: all u64 with >= 62 trailing ones; hash symbolic", "none", expect="D8"),
        "c11_request_block": H("quick", "RequestBlock", _scalar + "; cut k symbolic", "none"),
        "c11_request_seek": H("quick", "RequestSeek", _scalar + "; cut k symbolic", "none"),
        "c11_request_upgrade": H("quick", "RequestUpgrade", _scalar + "; cut k symbolic", "none"),
        "c11_data_hash_prefix": H("quick", "DataHash scalar prefix, encode side", _scalar, "lists empty; encode side only"),
        "c11_data_seek_prefix": H("quick", "DataSeek scalar prefix, encode side", _scalar, "lists empty; encode side only"),
        "c11_data_block_prefix": H("quick", "DataBlock scalar prefix + value 0..4 symbolic bytes, encode side", _scalar + "; value length 0..4", "lists empty; encode side only"),
        "c11_data_upgrade_prefix": H("quick", "DataUpgrade scalar prefix + signature 0..4 bytes, encode side", _scalar + "; signature length 0..4", "lists empty; encode side only"),
    },
)
for msg, counts in (("data_hash", (0, 1, 2)), ("data_seek", (0, 2)), ("data_block", (0, 1, 2)), ("data_upgrade", (0, 1, 2))):
    for c in counts:
        C11["harnesses"]["c11_%s_layout%d" % (msg, c)] = H(
            "quick", "%s full round trip, %d node(s)" % (msg, c), "hash bytes (32 per node), value/signature bytes",
            _layout % (c, "every field boundary b, b-1 and n-1"), rules=[(r"check_layout", 30)], timeout=900)
        C11["harnesses"]["c11_%s_layout%d_allcuts" % (msg, c)] = H(
            "thorough", "%s full round trip, %d node(s), all prefixes" % (msg, c), "hash bytes (32 per node), value/signature bytes",
            _layout % (c, "every k < n"), rules=[(r"check_layout", 170)], timeout=2400)
PROPS["C11"] = C11
