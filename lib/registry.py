"""Registry: which harnesses decide which property, with their bounds.

Every entry states what is symbolic and the bound; these strings are copied into the evidence.
`unwindset` rules are (regex over CBMC loop id, bound); first match wins; the global `--unwind`
stays small (unwinding assertions are always on, so an insufficient bound is reported as
inconclusive, never as a pass).
"""

# loop bounds that are the same everywhere
COMMON_RULES = [
    (r"^memcpy\.|^memmove\.", 10000),  # byte-loop memcpy (models/cprover/mem.c), only present where it is linked
    (r"memcmp", 70),            # Vec<u8>/[u8] equality up to 64 bytes (+1), signature compare
    (r"4Node3new", 34),         # Node::new blank scan over 32 hash bytes
    (r"4util6hash32", 34),
    (r"4util7node_eq", 34),
    (r"ref_codec.*3raw", 66),   # reference encoder raw copy (hash 32 / signature 64)
    (r"any_bytes_upto4", 6),
    (r"baseline11update_slow", 70),      # crc32fast tail loop (< 64 bytes)
    (r"baseline14update_fast_16", 12),   # crc32fast 64-byte blocks (payloads < 700 bytes)
    (r"ref_codec13crc32_bitwise", 520),
]

STUBS = ["std::fmt::format -> String::new() (error messages are never the subject)"]
BASE_MODELS = [
    "ed25519-dalek: idealised injective signature model (models/ed25519-dalek)",
    "tracing/tracing-attributes: #[instrument] = identity (models/tracing*)",
    "pretty-hash: same function without the `failure` dependency (models/pretty-hash)",
    "blake2: model crate (FOLD mode unless a harness switches to UF); real crate only in variant 'real'",
]


def H(tier, desc, symbolic, bound, unwind=4, rules=(), timeout=None, mem_gb=9, expect=None, extra=(), nonterm=(), memloop=False):
    """extra: additional CBMC options, e.g. --arrays-uf-always (arrays as uninterpreted functions
    instead of flattening: 238 s -> 1.7 s for symbolic-index writes into a 1024-word bitfield page)."""
    return dict(tier=tier, desc=desc, symbolic=symbolic, bound=bound, unwind=unwind,
                rules=list(rules), timeout=timeout, mem_gb=mem_gb, expect=expect, extra=list(extra), nonterm=list(nonterm), memloop=memloop)


UF = ["--arrays-uf-always"]
FS9000 = ["--max-field-sensitivity-array-size", "9000"]  # later occurrence overrides the default 300


PROPS = {}

# --------------------------------------------------------------------------------------------- C11
_scalar = "all u64 fields fully symbolic (every varint class boundary is inside the query)"
_layout = ("scalar prefix concrete on a varint class boundary; %d fixed-width node(s) with symbolic "
           "32-byte hashes; decode prefixes at %s")
C11 = dict(
    title="Wire messages round-trip exactly and match the compact-encoding spec",
    variant="model",
    patterns=["c11_"],
    functions=[
        "hypercore::encoding::<impl CompactEncoding for Node|RequestBlock|RequestSeek|RequestUpgrade|"
        "DataBlock|DataHash|DataSeek|DataUpgrade>::{encoded_size,encode,decode}",
        "compact_encoding::{encode_var_u64,decode_u64_var,encode_usize_var,decode_usize,decode_vec,"
        "encode_vec,write_array,take_array} (real dependency code)",
        "hypercore::common::node::Node::new",
    ],
    oracle="independent reference encoder harness/ref_codec.rs (written from the JS compact-encoding spec)",
    outside=[
        "byte strings > 4 bytes (64 for signatures) and lists > 2 nodes (loop count grows with input)",
        "list-bearing messages with symbolic-width scalars *and* non-empty lists in the same query "
        "(covered separately: *_prefix for the scalars, *_layout for the lists)",
        "symbolic cut position inside list-bearing messages (cuts are concrete: field boundaries in "
        "quick, every k<n in thorough)",
    ],
    harnesses={
        "c11_uint_codec": H("quick", "u64 and usize varint codec vs reference, all prefixes", "v: u64 full range; cut k symbolic", "none (full 64-bit range)"),
        "c11_node": H("quick", "Node encode/size/decode/prefix", "index (depth<62), length: u64 full range; hash: 32 symbolic bytes; cut k symbolic", "index with < 62 trailing one bits", timeout=600),
        "c11_node_extreme_index": H("quick", "Node decode for index with >= 62 trailing one bits", "index: all u64 with >= 62 trailing ones; hash symbolic", "none", expect="D8"),
        "c11_request_block": H("quick", "RequestBlock", _scalar + "; cut k symbolic", "none"),
        "c11_request_seek": H("quick", "RequestSeek", _scalar + "; cut k symbolic", "none"),
        "c11_request_upgrade": H("quick", "RequestUpgrade", _scalar + "; cut k symbolic", "none"),
        "c11_data_hash_prefix": H("quick", "DataHash scalar prefix, encode side", _scalar, "lists empty; encode side only"),
        "c11_data_seek_prefix": H("quick", "DataSeek scalar prefix, encode side", _scalar, "lists empty; encode side only"),
        "c11_data_block_prefix": H("quick", "DataBlock scalar prefix + value 0..4 symbolic bytes, encode side", _scalar + "; value length 0..4", "lists empty; encode side only", timeout=600),
        "c11_data_upgrade_prefix": H("quick", "DataUpgrade scalar prefix, encode side", _scalar, "lists and signature empty; encode side only"),
        "c11_data_upgrade_sig": H("thorough", "DataUpgrade with signature of symbolic length 0..4, full round trip + symbolic cut", "signature: 0..4 symbolic bytes; cut k symbolic", "start/length concrete; lists empty", timeout=600),
    },
)
for msg, counts in (("data_hash", (0, 1, 2)), ("data_seek", (0, 2)), ("data_block", (0, 1, 2)), ("data_upgrade", (0, 1, 2))):
    for c in counts:
        C11["harnesses"]["c11_%s_layout%d" % (msg, c)] = H(
            "quick", "%s full round trip, %d node(s)" % (msg, c), "hash bytes (32 per node), value/signature bytes",
            _layout % (c, "every field boundary b, b-1 and n-1"), rules=[(r"check_layout", 30)], timeout=900)
        C11["harnesses"]["c11_%s_layout%d_allcuts" % (msg, c)] = H(
            "thorough", "%s full round trip, %d node(s), all prefixes" % (msg, c), "hash bytes (32 per node), value/signature bytes",
            _layout % (c, "every k < n"), rules=[(r"check_layout", 170)], timeout=2400)
PROPS["C11"] = C11

# --------------------------------------------------------------------------------------------- C01
C01 = dict(
    title="Log contents equal an append-only list model, across close and reopen",
    variant="model",
    patterns=["c01_"],
    functions=[
        "hypercore::oplog::entry::<impl CompactEncoding for Entry|EntryTreeUpgrade|BitfieldUpdate>::{encoded_size,encode,decode}",
    ],
    oracle="the value itself (round trip) and the reference entry layout in harness/c_oplog.rs::ref_entry",
    outside=["entries with more than 2 nodes", "user_data (always empty in this crate)"],
    harnesses={
        "c01_entry_clear_encode": H("quick", "clear entry (bitfield only) size/bytes vs reference", "drop: bool, start,length: u64 full range", "encode side only"),
        "c01_entry_clear_sym": H("thorough", "clear entry full round trip (replay decode), everything symbolic", "drop: bool, start, length: u64 full range", "none", timeout=600),
        "c01_entry_clear_rt_small": H("quick", "clear entry full round trip (replay decode), start 0 / length 1", "drop", "start/length concrete"),
        "c01_entry_clear_rt_fc_fd": H("quick", "clear entry full round trip, start 0xfc / length 0xfd", "drop", "start/length concrete"),
        "c01_entry_clear_rt_16_32": H("quick", "clear entry full round trip, start 0xffff / length 0x10000", "drop", "start/length concrete"),
        "c01_entry_clear_rt_32_64": H("quick", "clear entry full round trip, start 2^32-1 / length 2^32", "drop", "start/length concrete"),
        "c01_entry_clear_rt_max": H("quick", "clear entry full round trip, start 2^64-1 / length 5", "drop", "start/length concrete"),
        "c01_entry_append": H("quick", "append entry (nodes+upgrade+bitfield) size/bytes/decode", "2 node hashes, 64 signature bytes", "scalar fields concrete (class boundaries)"),
        "c01_entry_block_only": H("quick", "block-only proof entry (nodes+bitfield) size/bytes/decode", "2 node hashes", "scalar fields concrete"),
        "c01_entry_upgrade_nodes": H("quick", "upgrade+nodes entry size/bytes/decode", "1 node hash, 64 signature bytes", "scalar fields concrete"),
        "c01_entry_upgrade_only": H("quick", "upgrade-only entry size/bytes/decode", "64 signature bytes", "scalar fields concrete (u32/u64 class boundaries)"),
        "c01_entry_upgrade_scalars_encode": H("quick", "upgrade scalars full range, encode side", "fork, ancestors, length: u64 full range; 64 signature bytes", "encode side only"),
        "c01_oplog_clear_entry_2_4": H("quick", "Oplog::clear(2,4) writes one bitfield-only entry {drop, start 2, length 2} after the pending bytes with the current header bit; decodes back to it", "pending bytes < 1000", "start/end/header bits concrete per instance", timeout=600, extra=FS9000),
        "c01_oplog_clear_entry_0_1": H("quick", "Oplog::clear(0,1), header bits [1,0]", "pending bytes < 1000", "start/end/header bits concrete per instance", timeout=600, extra=FS9000),
        "c01_oplog_clear_entry_100_252": H("thorough", "Oplog::clear(100,252), header bits [0,1]", "pending bytes < 1000", "start/end/header bits concrete per instance", timeout=600, extra=FS9000),
        "c01_oplog_append_changeset_entry": H("thorough", "Oplog::append_changeset writes {nodes, upgrade(fork, ancestors, length, signature), bitfield} and returns a header with the changeset's root hash / signature / length", "compared byte positions (root hash, signature, entry bytes)", "one concrete changeset", timeout=2400, extra=FS9000, rules=[(r"c01_oplog_append_changeset_entry", 70)], memloop=True),
    },
)
C01["functions"] += ["hypercore::oplog::Oplog::{clear,append_changeset,update_header_with_changeset,append_entries}"]
C01["mir"] = True
C01["functions"] = C01["functions"] + ["MIR of hypercore::core::get (bitfield gate before any tree/data access, on every path)"]
PROPS["C01"] = C01

# --------------------------------------------------------------------------------------------- C08
_BF_RULES = [(r"increase_cache", 10), (r"FixedBitfield9set_range", 8), (r"DynamicBitfield9set_range", 5), (r"try_fold|4find|8index_of|13last_index_of", 110),
             (r"FixedBitfield9from_data", 1030), (r"FixedBitfield8to_bytes", 1030), (r"update_contiguous_length", 20), (r"SigningKey13verifying_key", 34)]
_win = "start within +-64 bits of a boundary chosen symbolically from {low end, mid-page word edge, last word, page end}; 1 <= len <= 96"
C08 = dict(
    title="has() and contiguous_length are exact for large, sparse and reopened cores",
    variant="model",
    patterns=["c08_"],
    functions=[
        "hypercore::bitfield::fixed::FixedBitfield::{new,get,set,set_range,index_of,last_index_of,from_data,to_bytes}",
        "hypercore::bitfield::dynamic::DynamicBitfield::{open,flush,get,set_range,update,index_of,last_index_of}",
        "hypercore::core::update_contiguous_length",
    ],
    oracle="bit-level reference computed from the update parameters; first-missing-index of a 64-bit window",
    outside=[
        "ranges longer than 96 bits / scans longer than ~100 bits (loop count grows with input)",
        "cores beyond 4 pages; more than two updates per query (the contiguous-length claim is an inductive step from an arbitrary window, so it covers histories of any length inside a 64-block window)",
        "the contiguous-length update written inline in Hypercore::clear (needs the whole Hypercore; see C02 notes)",
        "DynamicBitfield::set_range/update/index_of/flush with symbolic arguments and FixedBitfield::index_of scans: the harnesses exist (thorough tier) but exhaust 9 GB / 15 min in this sandbox (IntMap + RefCell pages with symbolic page numbers); they are reported inconclusive, never as held",
    ],
    harnesses={
        "c08_fixed_set_get": H("quick", "FixedBitfield set/get incl. changed flag", "i, k, j: any bit index of the page", "none", unwind=6, extra=UF),
        "c08_fixed_set_range": H("quick", "two windowed set_range calls then get(j)", _win + " (twice); value: bool; j: any index of the page", "windows", rules=_BF_RULES, unwind=6, extra=UF, timeout=900),
        "c08_fixed_index_of": H("thorough", "index_of(true/false) near a range, None at the page end", "range: window, 1<=len<=40; positions up to 30 bits before / anywhere inside", "scan distance <= 70 bits", rules=_BF_RULES, timeout=900, unwind=6, extra=UF),
        "c08_fixed_last_index_of": H("thorough", "last_index_of(true/false) near a range, None at index 0", "range: window, 1<=len<=40; positions up to 30 bits after / anywhere inside", "scan distance <= 70 bits", rules=_BF_RULES, timeout=900, unwind=6, extra=UF),
        "c08_dyn_set_range_edge1": H("thorough", "DynamicBitfield set_range (start 32768-40) then get(j)", "length 1..96 symbolic; j < 4 pages; far index >= 4 pages", "start concrete per instance", rules=_BF_RULES, timeout=900, unwind=6, extra=FS9000),
        "c08_dyn_set_range_edge2": H("thorough", "DynamicBitfield set_range (start 65535) then get(j)", "length 1..96 symbolic; j < 4 pages; far index >= 4 pages", "start concrete per instance", rules=_BF_RULES, timeout=900, unwind=6, extra=UF),
        "c08_dyn_set_range_pagestart": H("thorough", "DynamicBitfield set_range (start 32768) then get(j)", "length 1..96 symbolic; j < 4 pages; far index >= 4 pages", "start concrete per instance", rules=_BF_RULES, timeout=900, unwind=6, extra=UF),
        "c08_dyn_drop_across_pages": H("thorough", "drop of a range straddling the page edge out of a held range", "drop length 1..96 symbolic from 32768-30; j < 4 pages", "starts concrete", rules=_BF_RULES, timeout=900, unwind=6, extra=UF),
        "c08_dyn_index_of_sparse": H("thorough", "index_of/last_index_of(true) across a missing page", "bits at 32761 and 65541 (concrete); query positions symbolic within 20 bits", "20-bit windows", rules=_BF_RULES, timeout=900, unwind=6, extra=UF),
        "c08_dyn_flush_layout": H("thorough", "flush: one StoreInfo per dirty page at 4096*page, LE words", "range from 32768-50, length 1..96 symbolic; info n, bit k symbolic", "start concrete", rules=_BF_RULES, timeout=900, unwind=6, extra=UF),
        "c08_dyn_open_one_page_first": H("quick", "open: has(j) == bit j of the file; 4096-byte file, byte 0 symbolic", "x: the byte value; j: any index < 4 pages", "file zero elsewhere; byte offset concrete per instance", rules=_BF_RULES, timeout=900, unwind=5, extra=FS9000),
        "c08_dyn_open_one_page_last": H("quick", "open: has(j) == bit j of the file; 4096-byte file, byte 4095 symbolic", "x: the byte value; j: any index < 4 pages", "file zero elsewhere; byte offset concrete per instance", rules=_BF_RULES, timeout=900, unwind=5, extra=FS9000),
        "c08_dyn_open_two_pages_p0": H("thorough", "open: has(j) == bit j of the file; 8192-byte file (core > 32768 blocks), byte 1027 symbolic", "x: the byte value; j: any index < 4 pages", "file zero elsewhere; byte offset concrete per instance", rules=_BF_RULES, timeout=900, unwind=5, extra=FS9000),
        "c08_dyn_open_two_pages_p1_first": H("thorough", "open: has(j) == bit j of the file; 8192-byte file, byte 4096 symbolic", "x: the byte value; j: any index < 4 pages", "file zero elsewhere; byte offset concrete per instance", rules=_BF_RULES, timeout=900, unwind=5, extra=FS9000),
        "c08_dyn_open_two_pages_p1_last": H("thorough", "open: has(j) == bit j of the file; 8192-byte file, byte 8191 symbolic", "x: the byte value; j: any index < 4 pages", "file zero elsewhere; byte offset concrete per instance", rules=_BF_RULES, timeout=900, unwind=5, extra=FS9000),
        "c08_dyn_open_partial_page": H("thorough", "open: has(j) == bit j of the file; 4100-byte file (short last page), byte 4099 symbolic", "x: the byte value; j: any index < 4 pages", "file zero elsewhere; byte offset concrete per instance", rules=_BF_RULES, timeout=900, unwind=5, extra=FS9000),
        "c08_bitfield_open_size_step": H("quick", "open(size) asks for whole words only", "store length < 2^40", "none", unwind=6, extra=UF),
        "c08_contiguous_length_step": H("quick", "inductive step of contiguous-length maintenance", "window w: all 2^15 patterns of blocks 0..14; update drop/start/length anywhere inside", "16-block window", rules=_BF_RULES, timeout=600, unwind=6, extra=UF),
    },
)
C08["mir"] = True
C08["functions"] = C08["functions"] + ["MIR of hypercore::core::{append_batch,verify_and_apply_proof,new,clear} (contiguous-length maintenance on every path)"]
PROPS["C08"] = C08

# --------------------------------------------------------------------------------------------- C06
def _OP(desc, tier="quick"):
    return H(tier, "Oplog::open on a reference-encoded image: " + desc, "none (image concrete; CRC-framed images with symbolic bytes exhaust memory)",
             "one configuration per harness instance", rules=[(r"crc32_bitwise", 420), (r"build_entries|open_entries", 6), (r"torn_header|torn_entry", 300), (r"crash_in_make_read_only", 8200)], timeout=900, unwind=5, extra=FS9000,
             nonterm=[r"Oplog::open\.unwind"])


C06 = dict(
    title="Storage files are readable and writable per the JavaScript on-disk layout",
    variant="model",
    patterns=["c06_"],
    functions=["hypercore::oplog::{encode_with_leader,write_leader_parts,build_len_and_info_header,Oplog::validate_leader}", "crc32fast::hash / Hasher (real dependency code, baseline path)"],
    oracle="reference layout encoders in harness/c_oplog.rs (ref_header, ref_entry, ref_leader) and bitwise CRC-32 in harness/ref_codec.rs",
    outside=["golden SHA-256 file hashes of the five-step JS interop scenario (one concrete run with real BLAKE2b/Ed25519: nothing symbolic; real crypto out of reach)"],
    harnesses={
        "c06_open_slot0_only": H("quick", "Oplog::open picks the header slot the JS rule picks (slot 0 only)", "4 root-hash and 4 signature bytes of each header", "slot presence/bits concrete per instance; other header fields concrete", rules=[(r"crc32_bitwise", 420)], timeout=900, unwind=5, extra=FS9000),
        "c06_open_slot1_only": H("quick", "Oplog::open picks the header slot the JS rule picks (slot 1 only)", "4 root-hash and 4 signature bytes of each header", "slot presence/bits concrete per instance; other header fields concrete", rules=[(r"crc32_bitwise", 420)], timeout=900, unwind=5, extra=FS9000),
        "c06_open_both_tt": H("quick", "Oplog::open picks the header slot the JS rule picks (both, bits 1/1)", "4 root-hash and 4 signature bytes of each header", "slot presence/bits concrete per instance; other header fields concrete", rules=[(r"crc32_bitwise", 420)], timeout=900, unwind=5, extra=FS9000),
        "c06_open_both_tf": H("quick", "Oplog::open picks the header slot the JS rule picks (both, bits 1/0)", "4 root-hash and 4 signature bytes of each header", "slot presence/bits concrete per instance; other header fields concrete", rules=[(r"crc32_bitwise", 420)], timeout=900, unwind=5, extra=FS9000),
        "c06_open_both_ft": H("quick", "Oplog::open picks the header slot the JS rule picks (both, bits 0/1)", "4 root-hash and 4 signature bytes of each header", "slot presence/bits concrete per instance; other header fields concrete", rules=[(r"crc32_bitwise", 420)], timeout=900, unwind=5, extra=FS9000),
        "c06_open_both_ff": H("quick", "Oplog::open picks the header slot the JS rule picks (both, bits 0/0)", "4 root-hash and 4 signature bytes of each header", "slot presence/bits concrete per instance; other header fields concrete", rules=[(r"crc32_bitwise", 420)], timeout=900, unwind=5, extra=FS9000),
        "c06_open_trailing_partial": _OP("entry followed by a trailing partial-flagged entry: dropped, log continues after the kept entry"),
        "c06_open_only_partial": _OP("only a partial-flagged entry: dropped"),
        "c06_open_finished_batch": _OP("partial, partial, final: a finished atomic batch is kept whole"),
        "c06_leader_entry": H("thorough", "leader (crc, len<<2|partial<<1|header_bit) of an entry vs reference; validate_leader reads it back", "clear entry: drop bit, start < 253, length < 253 (3 symbolic payload bytes), partial bit, header bit", "4 payload bytes (CRC equivalence over many symbolic bytes is XOR-hard for SAT)", timeout=2400, rules=[(r"crc32_bitwise", 30), (r"update_slow", 30)]),
    },
)
PROPS["C06"] = C06

# --------------------------------------------------------------------------------------------- C02
C02 = dict(
    title="A crash between any two storage operations recovers to before-or-after state",
    variant="model",
    patterns=["c02_"],
    functions=["hypercore::oplog::Oplog::{open,validate_leader,clear,append_entries}", "hypercore::oplog::header::Header::decode", "hypercore::oplog::entry::Entry::decode", "crc32fast (portable path)"],
    oracle="expected entry list / header / next write offset computed from the image specification",
    outside=["orchestration in core.rs (write order across the four stores, flush cadence): Hypercore's async API does not fit in CBMC here (see DESIGN.md S-gate)",
             "symbolic payload bytes inside CRC-framed images"],
    harnesses={
        "c02_open_one_append": _OP("one unflushed append entry is replayed and the log continues after it"),
        "c02_open_append_clear": _OP("append + clear entries are replayed in order"),
        "c02_open_garbage_tail": _OP("5 garbage bytes after the last entry are ignored"),
        "c02_open_stale_entry": _OP("an entry carrying the previous header bit (left behind by a crash between header write and truncate) is ignored"),
        "c02_open_phase_tt": _OP("header bits [1,1] (slot 0 newest): current entry kept, stale entry dropped, log continues with bit 0"),
        "c02_open_phase_tf": _OP("header bits [1,0] (slot 1 newest): current entry (bit 1) kept, stale dropped, log continues with bit 1"),
        "c02_open_phase_ft": _OP("header bits [0,1] (slot 1 newest): current entry (bit 1) kept, stale dropped"),
        "c02_open_phase_ff_both": _OP("header bits [0,0] with both slots (slot 0 newest)", tier="thorough"),
        "c02_open_valid_then_stale": _OP("valid entry followed by a stale one: only the valid one is replayed"),
        "c02_flush_header_then_truncate": H("quick", "Oplog::flush(header,false): the new header is written into the non-current slot first, the entries are truncated second", "both header bits", "header contents concrete", timeout=600, unwind=5, extra=FS9000),
        "c02_fresh_header_then_truncate": H("quick", "creating an oplog: header into slot 0 first, then the file is cut at 8192", "none", "concrete", timeout=600, unwind=5, extra=FS9000),
    },
)
C02["functions"] += ["hypercore::oplog::Oplog::{flush,insert_header,fresh}", "hypercore::tree::MerkleTree::{truncate,add_node,required_node}"]
C02["mir"] = True
C02["functions"] = C02["functions"] + ["MIR of hypercore::core::{new,append_batch,clear,verify_and_apply_proof,flush_bitfield_and_tree_and_oplog} (order of component and storage calls on every path)"]
C02["outside"] = ["values (which bytes / offsets are written) in core.rs: the MIR obligations abstract data", "reopen from every journal prefix through the public API (DESIGN.md 10.8)", "symbolic payload bytes inside CRC-framed images"]
PROPS["C02"] = C02

# --------------------------------------------------------------------------------------------- C07
C07 = dict(
    title="A torn final write is tolerated like a clean crash",
    variant="model",
    patterns=["c07_"],
    functions=["hypercore::oplog::Oplog::{open,validate_leader}", "Header::decode, Entry::decode", "crc32fast (portable path)"],
    oracle="the pre-state of the torn call (header of the other slot / pending entries before the append)",
    outside=["cut points other than the listed ones (1,6,8,9,100,270 / 8,60,150 for headers; 3,8,9,148 / 8,40,148 for entries): each cut is one concrete image, symbolic cuts make every image byte an if-then-else over CRC-framed data (out of memory)",
             "torn writes to the bitfield/tree/data stores (rewritten by replay; orchestration in core.rs is outside every claim)"],
    harnesses={
        "c07_torn_header_k1": _OP(tier="thorough", desc="header flush torn after 1 bytes into an empty slot 1: falls back to slot 0"),
        "c07_torn_header_k6": _OP("header flush torn after 6 bytes into an empty slot 1: falls back to slot 0"),
        "c07_torn_header_k8": _OP("header flush torn after 8 bytes into an empty slot 1: falls back to slot 0"),
        "c07_torn_header_k9": _OP(tier="thorough", desc="header flush torn after 9 bytes into an empty slot 1: falls back to slot 0"),
        "c07_torn_header_k100": _OP("header flush torn after 100 bytes into an empty slot 1: falls back to slot 0"),
        "c07_torn_header_k270": _OP(tier="thorough", desc="header flush torn after 270 bytes into an empty slot 1: falls back to slot 0"),
        "c07_torn_header_over_old_k8": _OP(tier="thorough", desc="header flush torn after 8 bytes over the older header in slot 1: falls back to slot 0"),
        "c07_torn_header_over_old_k60": _OP("header flush torn after 60 bytes over the older header in slot 1: falls back to slot 0"),
        "c07_torn_header_over_old_k150": _OP(tier="thorough", desc="header flush torn after 150 bytes over the older header in slot 1: falls back to slot 0"),
        "c07_torn_entry_end_k3": _OP("entry append torn after 3 bytes at the end of the file: ignored"),
        "c07_torn_entry_end_k8": _OP(tier="thorough", desc="entry append torn after 8 bytes at the end of the file: ignored"),
        "c07_torn_entry_end_k9": _OP(tier="thorough", desc="entry append torn after 9 bytes at the end of the file: ignored"),
        "c07_torn_entry_end_k148": _OP("entry append torn after 148 bytes at the end of the file: ignored"),
        "c07_torn_entry_over_stale_k8": _OP("entry append torn after 8 bytes over a stale entry: ignored"),
        "c07_torn_entry_over_stale_k40": _OP(tier="thorough", desc="entry append torn after 40 bytes over a stale entry: ignored"),
        "c07_torn_entry_over_stale_k148": _OP("entry append torn after 148 bytes over a stale entry: ignored"),
        "c07_open_slot0_torn_slot1_bit1": _OP("header write into slot 0 torn, slot 1 valid (bit 1): falls back to slot 1, header bits [0,1], the pending entry with bit 1 is replayed, the log continues with bit 1"),
        "c07_open_slot0_torn_slot1_bit0": _OP("header write into slot 0 torn, slot 1 valid (bit 0): header bits [1,0], pending entry with bit 1 replayed", tier="thorough"),
    },
)
PROPS["C07"] = C07

# --------------------------------------------------------------------------------------------- C12
C12 = dict(
    title="Secret key hygiene: read-only cores cannot write and leave no key on disk",
    variant="model",
    patterns=["c12_"],
    functions=["hypercore::oplog::Oplog::{flush,insert_header,open,clear}", "hypercore::oplog::header::<impl CompactEncoding for Header|PartialKeypair>", "encode_with_leader"],
    oracle="reference header frame without secret; byte-window comparison with the secret key",
    outside=["executing Hypercore::{make_read_only,append} end to end (the gates in core.rs are decided on its MIR control-flow graph, data abstracted); the data/tree/bitfield files never receive key material by construction (no code path passes the key pair to them) — argued, not checked",
             "histories other than: both slots holding the secret, one pending entry"],
    harnesses={
        "c12_flush_clear_traces": H("quick", "flush(header without secret, clear_traces): both slots rewritten zero-padded, bytes == reference, no 32-byte window equals the secret, entries truncated",
                                    "slot choice, byte offset j < 4096, window offset o <= 4064", "header fields concrete; secret key concrete ([7;32])", rules=[(r"crc32_bitwise", 420), (r"c12_flush_clear_traces", 34)], timeout=900, unwind=5, extra=FS9000),
        "c12_crash_before": _OP("crash before the first operation of make_read_only's flush: writable core, pending clear replayed"),
        "c12_crash_after_slot1": _OP("crash after slot 1 was rewritten: read-only core, same tree, pending entry stale"),
        "c12_crash_after_slot0": _OP("crash after both slots were rewritten: read-only core (pending entry replayed once more, idempotent)"),
        "c12_crash_after_truncate": _OP("all three operations applied: read-only core, no entries", tier="thorough"),
    },
)
C12["mir"] = True
C12["functions"] = C12["functions"] + ["MIR of hypercore::core::{new,append_batch,make_read_only,flush_bitfield_and_tree_and_oplog} (key gates on every path)"]
PROPS["C12"] = C12

# --------------------------------------------------------------------------------------------- C09
_TREE_RULES = [(r"IterMut.*4fold|13generic_array|GenericArray", 34), (r"nodes_to_root", 66), (r"flat_tree|9flat_tree", 45), (r"writer_tree|block_data|prefix_sum|tree_shape|ref_tree", 70), (r"increase_cache", 10),
               (r"create_valueless_proof|upgrade_proof|block_and_seek_proof|seek_proof|seek_from_head|seek_trusted_tree|byte_offset_from_nodes|missing_nodes|verify_tree|verify_upgrade", 45),
               (r"SigningKey13verifying_key", 34), (r"ed25519_dalek", 120), (r"6absorb", 40), (r"blake2", 200)]
def _T(desc="", sym="", bound="", tier="quick", timeout=900, unwind=6, extra=(), mem_gb=9, memloop=False):
    return H(tier, desc, sym, bound, rules=_TREE_RULES, timeout=timeout, unwind=unwind, extra=extra, mem_gb=mem_gb, memloop=memloop)
C09 = dict(
    title="No request or proof from a peer can panic the node",
    variant="model",
    patterns=["c09_"],
    functions=["hypercore::tree::merkle_tree::MerkleTree::{create_valueless_proof,upgrade_proof,additional_upgrade_proof,block_and_seek_proof,seek_proof,seek_from_head,seek_trusted_tree,seek_untrusted_tree,byte_offset_from_nodes,verify_proof,missing_nodes}",
               "nodes_to_root, normalize_indexed, verify_tree, verify_upgrade, NodeQueue::shift", "flat_tree::Iterator (real dependency code)"],
    oracle="absence of failed Kani checks (panic!/unwrap/expect, arithmetic overflow, index out of bounds, unwinding assertions = termination within the bound)",
    outside=["create_valueless_proof / verify_proof as a whole on a populated tree: the harnesses exist (thorough tier) but exhaust 9 GB in this sandbox; the quick tier covers the arithmetic/queue helpers and verify_tree/verify_upgrade on an empty replica", "trees of more than 3 blocks for requests", "numeric fields >= 2^40 (as in the property)", "node lists longer than 2 in arbitrary proofs"],
    harnesses={
        "c09_nodes_to_root": _T("nodes_to_root: Ok/Err, no overflow, terminates", "index, nodes, head < 2^40 (head even)", "none"),
        "c09_normalize_indexed": _T("normalize_indexed incl. right_span of a peer-supplied tree index", "index, nodes < 2^40; block or hash", "none"),
        "c09_node_queue_shift": _T("NodeQueue::shift x4 with arbitrary expected indices", "0..2 arbitrary nodes + optional extra; 4 expected indices", "queue <= 3"),
        "c09_verify_upgrade_no_nodes": _T("verify_upgrade of a node-less upgrade on an empty replica (incl. zero length)", "start, length < 2^40; 64 signature bytes", "no nodes"),
        "c09_req_block_vs_upgrade_target": _T("create_valueless_proof(block, upgrade) where the block may lie beyond the upgrade target", "block index 0..2, upgrade length 1..3 (start 0)", "3-block literal tree; nodes=0", tier="thorough", timeout=1800),
        "c09_verify_upgrade_empty_replica": _T("verify_upgrade of a structurally arbitrary upgrade on an empty replica", "start,length < 2^40; 0..2 nodes, 0..1 additional node (all fields arbitrary); 64 signature bytes; fork", "empty replica", tier="thorough", timeout=1800),
        "c09_verify_tree_arbitrary": _T("verify_tree of structurally arbitrary block/hash/seek sections", "index < 2^40, value 0..4 bytes, node lists 0..2 arbitrary nodes, seek bytes", "node lists <= 2", tier="thorough", timeout=1800),
        "c09_req_block_n3": _T("create_valueless_proof(block) on a 3-block tree", "block.index, block.nodes < 2^40", "tree of 3 blocks", tier="thorough", timeout=1800),
        "c09_req_upgrade_n3": _T("create_valueless_proof(upgrade)", "upgrade.start, upgrade.length < 2^40", "tree of 3 blocks", tier="thorough", timeout=1800),
        "c09_req_block_upgrade_n3": _T("create_valueless_proof(block, upgrade)", "4 fields < 2^40", "tree of 3 blocks", tier="thorough", timeout=1800),
    },
)
PROPS["C09"] = C09

# --------------------------------------------------------------------------------------------- C05
_HR = [(r"blake2", 200), (r"IterMut.*4fold|13generic_array|GenericArray", 34), (r"any_bytes_upto4", 6)]
C05 = dict(
    title="Merkle tree, root hash and signature match an independent reference",
    variant="model",
    patterns=["c05_"],
    functions=["hypercore::crypto::hash::{Hash::data, Hash::parent, Hash::tree, signable_tree}", "MerkleTreeChangeset::{append,append_root,hash_and_sign,hash,signable}", "flat_tree::Iterator::{sibling,parent,factor} (real dependency code)"],
    oracle="the Hypercore v10 framing written down independently in harness/c_hash.rs; the hash function itself is a recording model (models/blake2)",
    outside=["BLAKE2b itself and Ed25519 itself (dependencies; real BLAKE2b costs ~40 s of symbolic execution per compression, Ed25519 is out of reach)",
             "blocks longer than 4 bytes, more than 2 roots in the framing harnesses"],
    harnesses={
        "c05_leaf_framing": H("quick", "bytes handed to the hash for a leaf = 0x00 || LE64(len) || data", "data: 0..4 symbolic bytes; byte positions symbolic", "block <= 4 bytes", rules=_HR, timeout=600),
        "c05_parent_framing": H("quick", "bytes handed to the hash for a parent = 0x01 || LE64(sum) || lower-index child hash || other", "indices/lengths < 2^40, both 32-byte hashes symbolic, either argument order", "none", rules=_HR, timeout=600),
        "c05_tree_framing_1": H("quick", "bytes handed to the hash for a 1-root set = 0x02 || hash || LE64(index) || LE64(length)", "all fields symbolic", "1 root", rules=_HR, timeout=600),
        "c05_tree_framing_2": H("quick", "bytes handed to the hash for a 2-root set", "all fields symbolic", "2 roots", rules=_HR, timeout=600),
        "c05_tree_shape_n2": _T("append x2: persisted nodes [leaf0, leaf2, parent1], root [parent1]; hash_and_sign signs signable(tree hash, 2, 0) with the writer key", "2 block bytes", "2 one-byte blocks", timeout=1200),
        "c05_tree_shape_n3": _T("append x3 (two roots): node and root lists written out by hand", "3 block bytes", "3 one-byte blocks", timeout=1500, tier="thorough"),
        "c05_tree_shape_n4": _T("append x4 (depth-2 root)", "4 block bytes; node position k", "4 one-byte blocks", timeout=1500, tier="thorough"),
        "c05_signable_tree": H("quick", "signable = TREE namespace || root hash || LE64(length) || LE64(fork)", "hash 32 bytes, length, fork full range", "none", rules=_HR, timeout=600),
    },
)
C05["mir"] = True
C05["functions"] = C05["functions"] + ["MIR of hypercore::tree::merkle_tree::MerkleTree::truncate (stale roots are popped in a re-checked loop, on every path)"]
PROPS["C05"] = C05

# --------------------------------------------------------------------------------------------- C03
C03 = dict(
    title="Any honest proof is accepted and replicas converge to the writer's data",
    variant="model",
    patterns=["c03_"],
    functions=["MerkleTreeChangeset::{append,append_root,hash_and_sign,verify_and_set_signature}", "MerkleTree::{commit,create_valueless_proof,upgrade_proof,block_and_seek_proof,missing_nodes,verify_proof,byte_offset_in_changeset,commitable}", "verify_tree, verify_upgrade, NodeQueue"],
    oracle="prefix sums of the block sizes; the writer's own nodes",
    outside=["request sequences other than the listed scenarios (requests are concrete per harness instance: symbolic request fields exhaust memory); hash and seek requests; trees of more than 4 blocks; replica reopen; cleared blocks",
             "hash function = deterministic fold model, signatures = ideal model (completeness must hold for every hash function)"],
    harnesses={
        "c03_verify_tree_block_n2": _T("verify_tree recomputes root 1 = parent(leaf(value), sibling 2) for a block-0 proof", "2 block bytes, sibling hash (32 bytes) and length < 2^40", "fixed proof shape"),
        "c03_verify_upgrade_honest": _T("an honest full upgrade 0->1 with the writer's signature is accepted by an empty replica", "2 block bytes", "tree of 1 block"),
        "c03_verify_proof_block_against_stored_root": _T("a block proof whose recomputed root equals the stored root is accepted and commitable", "2 block bytes, sibling hash/length", "2-block tree, replica holds the root only"),
        "c03_n2_full_then_block": _T("writer 2 blocks; replica: block 0 + upgrade 0->2, then block 1", "block contents (1-2 bytes each) symbolic; node index k", "requests concrete", timeout=1200, tier="thorough"),
        "c03_n2_partial_upgrade": _T("writer 2 blocks; replica: block 0 + upgrade 0->1, then block 1 + upgrade 1->2", "block contents symbolic", "requests concrete", timeout=1200, tier="thorough"),
        "c03_n3_partial_upgrade": _T("writer 3 blocks; replica: block 1 + upgrade 0->2, then block 2 + upgrade 2->3", "block contents symbolic", "requests concrete", timeout=1500, tier="thorough"),
        "c03_n4_far_block": _T("writer 4 blocks; replica: block 3 + upgrade 0->4, then block 0", "block contents symbolic", "requests concrete", timeout=1500, tier="thorough"),
    },
)
C03["mir"] = True
C03["functions"] = C03["functions"] + ["MIR of hypercore::core::create_proof (a block whose value cannot be read yields Ok(None), on every path)"]
PROPS["C03"] = C03

# --------------------------------------------------------------------------------------------- C04
C04 = dict(
    title="Forged or altered proofs never change what a replica believes",
    variant="model",
    patterns=["c04_"],
    functions=["verify_upgrade + MerkleTreeChangeset::{append_root,verify_and_set_signature,hash,signable}", "MerkleTree::verify_proof + verify_tree + required_node", "crypto::{verify, signable_tree}, Hash::{data,parent,tree}"],
    oracle="refusal (Err) and unchanged replica roots/length",
    outside=["only single-field alterations of two fixed proof shapes (upgrade 0->1 of a 1-block tree; block-0 proof against a stored root of a 2-block tree); node drop/duplicate/swap/insert, +-1 on indices, multi-round histories and systematic forgeries with recomputed parents are not decided",
             "hash = fold model in which any single-byte input change changes the digest (sound for single-byte alterations only: with whole-hash substitutions the solver could use the fold's collisions); signatures = ideal model"],
    harnesses={
        "c04_verify_upgrade_altered": _T("the honest upgrade 0->1 with one altered field is refused", "alteration: one signature byte (position, value) | other key | signature for length 2 | fork 1 | one root-hash byte (position, value); 2 block bytes", "one alteration at a time"),
        "c04_verify_proof_block_altered": _T("a block proof with one altered block byte or sibling-hash byte is refused; replica unchanged", "position and value of the altered byte; 2 block bytes; sibling hash/length", "one alteration at a time"),
    },
)
C04["mir"] = True
C04["functions"] = C04["functions"] + ["MIR of hypercore::tree::merkle_tree::MerkleTree::verify_proof (when the pending block-root comparison may be dropped, on every path)"]
PROPS["C04"] = C04

# --------------------------------------------------------------------------------------------- C10
_ST_RULES = [(r"flush_infos|read_infos_to_vec|4iter", 8), (r"drop_glue", 6)]
C10 = dict(
    title="A storage error surfaces as an error and is recoverable by reopening",
    variant="st",
    patterns=["c10_"],
    groups=[dict(variant="st", patterns=["c10_"])],
    functions=["hypercore::storage::Storage::{flush_info,flush_infos,read_info,read_infos_to_vec,get_random_access} (the real src/storage/mod.rs after the mechanical de-async rewrite)", "hypercore::storage::map_random_access_err"],
    oracle="journal of a recording RandomAccess backend (sync trait model) whose k-th operation fails; expected (store, kind, offset, length) per instruction",
    outside=["the public calls in core.rs and the state after reopening (see DESIGN.md: the whole Hypercore API does not fit in CBMC)",
             "backends whose futures yield (the model trait is synchronous = always-ready futures); Storage::{open,new_memory,new_disk} (cut from the overlay: they only build backends)",
             "batches longer than 4 operations"],
    harnesses={
        "c10_flush_infos_fault": H("quick", "flush_infos(write, delete, truncate, write across 3 stores): Err iff an operation failed, nothing issued after the failure, every issued operation is the one the StoreInfo asked for",
                                   "fail position 0..=4 (4 = none), I/O or out-of-bounds error kind, all five offsets/lengths full u64", "batch of 4", timeout=900, unwind=4, rules=_ST_RULES),
        "c10_flush_info_single": H("quick", "flush_info(single write) and the empty batch", "fail or not, error kind, offset full u64", "one operation", timeout=900, unwind=4, rules=_ST_RULES),
        "c10_read_infos_fault": H("quick", "read_infos_to_vec(content with length, size, whole-file content = len+read): Err iff an operation failed, nothing issued after, results carry store/index/length",
                                  "fail position 0..=4, file length < 2^40, both indices", "3 instructions / 4 backend operations", timeout=900, unwind=4, rules=_ST_RULES),
        "c10_read_out_of_bounds": H("quick", "an out-of-bounds read is a miss iff allow_miss, an error otherwise", "allow_miss, index full u64", "one instruction", timeout=900, unwind=4, rules=_ST_RULES),
    },
)
C10["mir"] = True
C10["functions"].append("MIR of hypercore::core::{new,append,append_batch,get,clear,create_proof,verify_and_apply_proof,missing_nodes,missing_nodes_from_merkle_tree_index,make_read_only,byte_range,create_valueless_proof,verify_proof,flush_bitfield_and_tree_and_oplog} (error surfacing on every path)")
PROPS["C10"] = C10

# --------------------------------------------------------------------------------------------- C13
C13 = dict(
    title="Replication events announce exactly the state changes that happened",
    variant="st",
    patterns=["c13_"],
    groups=[dict(variant="st", patterns=["c13_"])],
    mir=True,
    functions=["MIR of hypercore::core::{append_batch,verify_and_apply_proof,get,clear,make_read_only,flush_bitfield_and_tree_and_oplog} (where events are emitted on every path)",
               "hypercore::replication::events::{Events::new,Events::send,Events::send_on_get,<Have as From<&BitfieldUpdate>>::from}"],
    oracle="safety monitors over call/branch events of the MIR control-flow graph (lib/mirpath.py specs C13); expected event lists for the Events wrapper",
    outside=["that the Have range passed by core.rs equals the bitfield update of the operation (data flow inside core.rs; only the conversion Have::from is checked on all values)",
             "the real async-broadcast channel (locks, wakers, overflow at capacity 32): replaced by a single-threaded FIFO model with the same try_broadcast/try_recv rules",
             "whole histories through the public API (the async Hypercore API does not fit in CBMC, DESIGN.md 10.8)"],
    harnesses={
        "c13_have_from_update": H("quick", "Have::from(&BitfieldUpdate) is field-exact", "start, length: u64 full range; drop", "none", timeout=600),
        "c13_events_two_subscribers_in_order": H("quick", "two subscribers both receive DataUpgrade then Have with the announced range, then nothing", "start, length full range", "2 subscribers, 2 events", timeout=900, rules=[(r"drop_glue", 6)]),
        "c13_send_on_get_one_event": H("quick", "send_on_get delivers exactly one Get with the index", "index full range", "1 subscriber", timeout=900, rules=[(r"drop_glue", 6)]),
        "c13_no_subscriber_no_backlog": H("quick", "sending without a subscriber is a silent no-op; late subscribers see no backlog", "none", "none", timeout=900, rules=[(r"drop_glue", 6)]),
    },
)
PROPS["C13"] = C13


# (registered here because they use the tree rules)
C02["harnesses"].update({
        "c02_replay_truncate_merges_roots": _T("replay on open: MerkleTree::truncate to a length where two roots merge yields exactly the new root / length / byte length", "length of the new leaf", "3 -> 4 blocks", timeout=2400, memloop=True, tier="thorough"),
        "c02_replay_truncate_grow_and_shrink": _T("MerkleTree::truncate to lengths where the root list shrinks / stays", "none", "3-block literal tree", timeout=2400, memloop=True, tier="thorough"),
})
C03["harnesses"].update({
    "c03_byte_offset_in_changeset_later_root": _T("a block delivered with an upgrade under the second root of the upgraded tree lands after the first root's bytes (empty replica)", "lengths of root 1 and leaf 4 < 2^40", "3-block upgraded tree", timeout=600),
    "c03_byte_offset_in_changeset_roots_differ": _T("same on a replica whose own roots differ from the changeset's", "three node lengths", "replica of 1 block upgrading to 3", timeout=600),
    "c03_block_plus_upgrade_honest": _T("honest proof with a block below the replica's length plus an upgrade from its length is accepted and commitable", "2 block bytes, sibling hash, new leaf hash", "replica 2 blocks -> 3", timeout=2400, tier="thorough", memloop=True, mem_gb=20),
})
C04["harnesses"].update({
    "c04_block_plus_upgrade_altered_block": _T("a genuine upgrade does not switch off the block check: block below the replica's length with one altered byte + valid upgrade is refused, replica unchanged", "position and value of the altered byte, 2 block bytes, sibling hash, new leaf hash", "replica 2 blocks -> 3", timeout=1800, tier="thorough", mem_gb=14),
})
C05["groups"] = [dict(variant="model", patterns=["c05_", "c02_replay_truncate_merges"])]
C05["harnesses"].update({
    "c05_node_store_layout_i5": _T("tree store layout: flush() writes node 5 at byte 200 as LE64(length) || hash (after a pending truncation at 40*(2*len-1)); index_from_info / node_from_bytes read it back", "length full u64, 32 hash bytes, truncation flag and length < 2^40, byte position", "one node per flush", timeout=2400, tier="thorough", memloop=True),
    "c05_node_store_layout_i0": _T("same for node 0 at byte 0", "length full u64, 32 hash bytes, truncation flag and length < 2^40, byte position", "one node per flush", timeout=900, tier="thorough"),
})
C06["groups"] = [dict(variant="model", patterns=["c06_", "c07_open_slot0_torn_slot1_bit1"])]
C06["harnesses"]["c07_open_slot0_torn_slot1_bit1"] = C07["harnesses"]["c07_open_slot0_torn_slot1_bit1"]
# (the node-store harness runs out of solver memory in this sandbox: thorough tier only, not shared with C06)
C05["harnesses"]["c02_replay_truncate_merges_roots"] = C02["harnesses"]["c02_replay_truncate_merges_roots"]
C09["harnesses"].update({
    "c09_seek_untrusted_flushed_root": _T("seek against a sub-tree whose root node is not in memory: any byte offset below 2^40 gives a value/instructions/error, never an overflow", "bytes < 2^40", "3-block literal tree, root 4 flushed", timeout=600),
    "c09_seek_untrusted_in_memory": _T("seek_untrusted_tree with every node in memory, either root", "bytes < 2^40, which root", "3-block literal tree", timeout=1800, tier="thorough"),
})
C10["groups"] = [dict(variant="st", patterns=["c10_"]), dict(variant="model", patterns=["c02_flush_header_then", "c02_fresh_header_then"])]
C10["harnesses"]["c02_flush_header_then_truncate"] = C02["harnesses"]["c02_flush_header_then_truncate"]
C10["harnesses"]["c02_fresh_header_then_truncate"] = C02["harnesses"]["c02_fresh_header_then_truncate"]

# --------------------------------------------------------------------------------------------- S-level
# Rules for the S-harnesses (real core.rs + oplog + tree + bitfield against the storage model).
_S_RULES = [(r"^memcpy\.|^memmove\.", 10000), (r"7storage.*4File(4read|5write|4zero)\.", 10000)] + _TREE_RULES + [(r"FixedBitfield9from_data", 1030), (r"FixedBitfield8to_bytes", 1030), (r"increase_cache", 10),
                          (r"FixedBitfield9set_range", 8), (r"DynamicBitfield9set_range", 5), (r"update_contiguous_length", 8),
                          (r"try_fold|4find|8index_of|13last_index_of", 40)]
FS10K = ["--max-field-sensitivity-array-size", "10000"]


def _S(desc="", sym="", bound="", tier="quick", timeout=900, unwind=6, extra=FS10K, mem_gb=9):
    return H(tier, desc, sym, bound, rules=_S_RULES, timeout=timeout, unwind=unwind, extra=extra, mem_gb=mem_gb)


# dev-only probes (not in MANIFEST)
PROPS["S00"] = dict(
    title="S-gate probes", variant="s", patterns=["s00_"], functions=[], oracle="", outside=[],
    groups=[dict(variant="s", patterns=["s00_"])],
    harnesses={
        "s00_micro_read": _S("storage model read/write"),
        "s00_micro_open1": _S("m"),
        "s00_micro_c1": _S("m"),
        "s00_micro_c3": _S("m"), "s00_micro_c4": _S("m"), "s00_micro_c5": _S("m"),
        "s00_micro_c2": _S("m"),
        "s00_micro_open2": _S("m"),
        "s00_probe_new": _S("Hypercore::new on empty model storage"),
        "s00_probe_new_append": _S("new + append"),
        "s00_probe_new_append_reopen_get": _S("new + append + reopen + get"),
    },
)
