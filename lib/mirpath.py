#!/usr/bin/env python3
"""Path checker over the MIR of hypercore's orchestration code (src/core.rs), decided by Z3/Spacer.

Why: the whole-API route through Kani/CBMC does not fit (DESIGN.md 10.8: enum moves through
`Result<Either<..>>` lose constant propagation, every length behind them becomes a symbolic-size
allocation).  What the properties need from core.rs is *control*: in which order the sans-IO
components and the storage layer are called, that every storage result is `?`-propagated, that
events are emitted only after the commit and never on a failing path, that the key gates come
first.  Those are properties of the control-flow graph of the real code.

How: rustc's MIR of the *current* /repo source (overlay variant "s": `async fn`/`.await` removed
mechanically, storage layer = model, nothing else changed) is dumped with
`cargo +nightly rustc -- -Zunpretty=mir`, parsed, and each function becomes a transition system:
  state  = (pc, monitor state q, return kind rk, lf = did the most recent fallible call fail,
            lfsrc = block of that call, af = has any storage-backed call failed on this path)
  data is abstracted: every `switchInt` is a free choice, EXCEPT switches on the outcome of a
  fallible call (`?` = Try::branch + discriminant): those follow `lf`.  Panic/unwind edges are
  not followed (C09 is about those).
Each property is a safety monitor (a small automaton over call events / branch events) and the
question "is a bad monitor state reachable at `return`" is a constrained-Horn-clause query that
Spacer answers for ALL paths of the (finite-state) abstraction, loops included: `unsat` = no path
violates; `sat` = a path, printed block by block.  The abstraction over-approximates the real
paths, so `unsat` is sound for the real code w.r.t. the stated event alphabet; a `sat` answer may be
an infeasible path and is reported with the path so that it can be read against the source.
"""
import json, os, re, shutil, subprocess, sys, time

VERIF = os.path.dirname(os.path.dirname(os.path.abspath(__file__)))
sys.path.insert(0, os.path.join(VERIF, "lib"))
CACHE = os.environ.get("VERIF_CACHE", os.path.join(VERIF, ".cache"))


# ------------------------------------------------------------------------------------------ MIR dump
def dump_mir(dst):
    """Build overlay variant 's' at dst from /repo's working tree and dump its MIR. Returns text."""
    import overlay
    overlay.build(dst, variant="s")
    env = dict(os.environ, CARGO_NET_OFFLINE="true", CARGO_TERM_COLOR="never",
               CARGO_TARGET_DIR=os.path.join(CACHE, "target-mir"))
    env.pop("RUSTFLAGS", None)
    env.pop("RUSTUP_TOOLCHAIN", None)
    # touch lib.rs: an unchanged crate would otherwise print nothing on a re-run
    os.utime(os.path.join(dst, "src/lib.rs"))
    p = subprocess.run(["cargo", "+nightly", "rustc", "--offline", "--lib", "--", "-Zunpretty=mir",
                        "-C", "debug-assertions=off", "-C", "overflow-checks=on"],
                       cwd=dst, env=env, stdout=subprocess.PIPE, stderr=subprocess.PIPE, text=True, timeout=3000)
    if p.returncode != 0 or "fn " not in p.stdout:
        raise RuntimeError("MIR dump failed (exit %d):\n%s" % (p.returncode, p.stderr[-4000:]))
    return p.stdout


# ------------------------------------------------------------------------------------------ parsing
class Block:
    def __init__(self, bid, cleanup):
        self.id, self.cleanup, self.stmts, self.term = bid, cleanup, [], None


class Func:
    def __init__(self, name, sig):
        self.name, self.sig, self.blocks, self.nparams = name, sig, {}, 0
        self.ret_result = bool(re.search(r"\)\s*->\s*(std::result::)?Result<", sig))


def parse_mir(text):
    funcs = {}
    cur, blk = None, None
    for line in text.splitlines():
        m = re.match(r"^fn (.+?)\((.*)\) -> (.+) \{$", line) or re.match(r"^fn (.+?)\((.*)\)()\s*\{$", line)
        if m and not line.startswith(" "):
            name = m.group(1)
            short = re.sub(r"<impl at [^>]*>::", "", name)
            cur = Func(short, line)
            cur.nparams = len(re.findall(r"_\d+: ", m.group(2)))
            if short == "core::new" and "Storage" not in m.group(2):
                short = "core::HypercoreOptions::new"
                cur.name = short
            funcs.setdefault(short, cur)
            blk = None
            continue
        if cur is None:
            continue
        if line == "}":
            cur, blk = None, None
            continue
        m = re.match(r"^    bb(\d+)( \(cleanup\))?: \{$", line)
        if m:
            blk = Block(int(m.group(1)), bool(m.group(2)))
            cur.blocks[blk.id] = blk
            continue
        if blk is not None:
            s = line.strip()
            if s == "}":
                blk = None
                continue
            if not s:
                continue
            blk.stmts.append(s)
    for f in funcs.values():
        for b in f.blocks.values():
            if b.stmts:
                b.term = b.stmts.pop()
    return funcs


def term_info(t):
    """-> dict(kind, succ=[(label, bb)], dest, callee, args)"""
    if t is None:
        return dict(kind="none", succ=[])
    m = re.match(r"^goto -> bb(\d+);$", t)
    if m:
        return dict(kind="goto", succ=[("", int(m.group(1)))])
    m = re.match(r"^switchInt\((.*)\) -> \[(.*)\];$", t)
    if m:
        succ = []
        for part in m.group(2).split(", "):
            k, v = part.split(": ")
            succ.append((k, int(v[2:])))
        return dict(kind="switch", op=m.group(1), succ=succ)
    if t in ("return;",):
        return dict(kind="return", succ=[])
    if t.startswith("unreachable") or t.startswith("resume") or t.startswith("unwind "):
        return dict(kind="stop", succ=[])
    m = re.match(r"^drop\((.*)\) -> \[return: bb(\d+)", t)
    if m:
        return dict(kind="drop", succ=[("", int(m.group(2)))])
    m = re.match(r"^assert\(.*\) -> \[success: bb(\d+)", t)
    if m:
        return dict(kind="assert", succ=[("", int(m.group(1)))])
    m = re.match(r"^(.*\)) -> (?:\[return: bb(\d+)|unwind)", t)
    if m:
        head = m.group(1)
        # the argument list is the last balanced (...) group of `head`
        depth, i = 0, len(head) - 1
        while i >= 0:
            if head[i] == ")":
                depth += 1
            elif head[i] == "(":
                depth -= 1
                if depth == 0:
                    break
            i -= 1
        lhs_callee, args = head[:i], head[i + 1:-1]
        mm = re.match(r"^((?:_\d+|\(.*?\)|\(\*_\d+\))(?:\.\d+)*) = (.*)$", lhs_callee)
        dest, callee = (mm.group(1), mm.group(2)) if mm else (None, lhs_callee)
        succ = [("", int(m.group(2)))] if m.group(2) else []
        return dict(kind="call", dest=dest, callee=callee, args=args, succ=succ)
    return dict(kind="other", succ=[], text=t)


# ------------------------------------------------------------------------------------------ events
# (regex over the callee text, event name).  First match wins.  Calls that match nothing are
# transparent (no event).
EVENT_RULES = [
    (r"^Storage::(flush_info|flush_infos)$", "W"),
    (r"^Storage::(read_info|read_infos|read_infos_to_vec)$", "R"),
    (r"^BlockStore::append_batch", "BlockStore::append_batch"),
    (r"^BlockStore::put", "BlockStore::put"),
    (r"^BlockStore::clear", "BlockStore::clear"),
    (r"^BlockStore::read", "BlockStore::read"),
    (r"^Oplog::append_changeset", "Oplog::append_changeset"),
    (r"^Oplog::clear", "Oplog::clear"),
    (r"^Oplog::flush", "Oplog::flush"),
    (r"^Oplog::open", "Oplog::open"),
    (r"^Oplog::update_header_with_changeset", "Oplog::update_header_with_changeset"),
    (r"^(Dynamic)?Bitfield::update$", "Bitfield::update"),
    (r"^(Dynamic)?Bitfield::set_range$", "Bitfield::set_range"),
    (r"^(Dynamic)?Bitfield::flush$", "Bitfield::flush"),
    (r"^(Dynamic)?Bitfield::open$", "Bitfield::open"),
    (r"^(Dynamic)?Bitfield::get$", "Bitfield::get"),
    (r"^MerkleTree::commit$", "MerkleTree::commit"),
    (r"^MerkleTree::commitable$", "MerkleTree::commitable"),
    (r"^MerkleTree::flush$", "MerkleTree::flush"),
    (r"^MerkleTree::open$", "MerkleTree::open"),
    (r"^MerkleTree::truncate$", "MerkleTree::truncate"),
    (r"^MerkleTree::add_node$", "MerkleTree::add_node"),
    (r"^MerkleTree::verify_proof$", "MerkleTree::verify_proof"),
    (r"^MerkleTree::byte_offset_in_changeset$", "MerkleTree::byte_offset_in_changeset"),
    (r"^MerkleTreeChangeset::hash_and_sign$", "MerkleTreeChangeset::hash_and_sign"),
    (r"^update_contiguous_length$", "update_contiguous_length"),
    (r"^Events::send::<(?:\w+::)*DataUpgrade>$", "send<DataUpgrade>"),
    (r"^Events::send::<(?:\w+::)*Have>$", "send<Have>"),
    (r"^Events::send_on_get$", "send_on_get"),
    (r"^Events::send", "send<other>"),
    (r"^ValuelessProof::into_proof$", "into_proof"),
    (r"^Vec::<(common::)?node::Node>::pop$", "pop_root"),
    (r"^MerkleTree::required_node$", "required_node"),
    (r"^Hypercore::(\w+)", None),  # name = Hypercore::<method>
]
PRODUCERS = {"BlockStore::append_batch", "BlockStore::put", "BlockStore::clear", "Oplog::append_changeset",
             "Oplog::clear", "Oplog::flush", "Oplog::open", "Bitfield::flush", "MerkleTree::flush"}
STORAGE_EVENTS_PREFIX = ("W", "R")

# branch events: (regex over the resolved place/callee text of a switch operand, label)
BRANCH_RULES = [
    (r"Gt\((move )?Vec::<(common::)?node::Node>::len\(.*Vec::<u64>::len\(", "roots>full"),
    (r"Gt\((move )?Vec::<(common::)?node::Node>::len\(", "roots>i"),
    (r"verify_upgrade\(.*as Continue\)\.0: bool", "upgrade_consumed_block_root"),
    (r"Option::<Vec<u8>>::is_none\(", "value.is_none"),
    (r"^\(?move \(Lt\(copy _2, move \(copy \(\(\(\(\*_1\)\.\d+: oplog::header::Header\)\.\d+: oplog::header::HeaderHints\)\.\d+: u64\)", "start<contig"),
    (r"PartialKeypair\)\.1: std::option::Option<ed25519_dalek::SigningKey>", "secret"),
    (r"Bitfield::get\(", "has"),
    (r"HypercoreOptions\)?\.1: bool|\(_2\.1: bool\)", "options.open"),
    (r"HypercoreOptions\)?\.0: std::option::Option<crypto::key_pair::PartialKeypair>|_2\.0: std::option::Option<crypto::key_pair::PartialKeypair>", "options.key_pair"),
    (r"std::option::Option<common::peer::DataUpgrade>", "proof.upgrade"),
    (r"std::option::Option<common::peer::DataBlock>", "proof.block"),
    (r"MerkleTree::commitable\(", "commitable"),
    (r"Hypercore::should_flush_bitfield_and_tree_and_oplog\(", "should_flush"),
    (r"is_empty\(", "batch.is_empty"),
]


def event_of(callee, args, nparams):
    c = callee.strip()
    for rx, name in EVENT_RULES:
        m = re.match(rx, c)
        if m:
            if name is None:
                name = "Hypercore::" + m.group(1)
            # constants / parameters among the arguments are part of the event
            extra = []
            for i, a in enumerate(split_args(args)):
                a = a.strip()
                if a in ("const true", "const false"):
                    extra.append("%d=%s" % (i, a[6:]))
                else:
                    mm = re.match(r"^(?:copy|move) _(\d+)$", a)
                    if mm and 2 <= int(mm.group(1)) <= nparams and name in ("Oplog::flush", "Hypercore::flush_bitfield_and_tree_and_oplog"):
                        extra.append("%d=p%s" % (i, mm.group(1)))
            if extra and name in ("Oplog::flush", "Hypercore::flush_bitfield_and_tree_and_oplog", "Oplog::append_changeset"):
                name += "(" + ",".join(extra) + ")"
            return name
    return None


def split_args(s):
    out, depth, cur = [], 0, ""
    for ch in s:
        if ch in "([{<":
            depth += 1
        elif ch in ")]}>":
            depth -= 1
        if ch == "," and depth == 0:
            out.append(cur)
            cur = ""
        else:
            cur += ch
    if cur.strip():
        out.append(cur)
    return out


class Model:
    """Transition system of one function."""

    def __init__(self, f, funcs):
        self.f = f
        self.defs = {}  # local -> list of rhs texts ("call:<bid>" for call results)
        for b in f.blocks.values():
            for s in b.stmts:
                m = re.match(r"^(_\d+) = (.*);$", s)
                if m:
                    self.defs.setdefault(m.group(1), []).append(m.group(2))
            ti = term_info(b.term)
            b.ti = ti
            if ti["kind"] == "call" and ti.get("dest") and re.match(r"^_\d+$", ti["dest"]):
                self.defs.setdefault(ti["dest"], []).append("call:%d" % b.id)
        self.fallible = set()
        self.event = {}
        for b in f.blocks.values():
            ti = b.ti
            if ti["kind"] != "call":
                continue
            ev = event_of(ti["callee"], ti["args"], f.nparams)
            if ev in ("W",):
                prods = sorted(self.producers(ti["args"]))
                ev = "W:" + ("+".join(prods) if prods else "?")
            if ev:
                self.event[b.id] = ev
            c = ti["callee"].strip()
            if re.match(r"^Storage::", c):
                self.fallible.add(b.id)
            m = re.match(r"^Hypercore::(\w+)", c)
            if m:
                g = funcs.get("core::" + m.group(1))
                if g is not None and g.ret_result:
                    self.fallible.add(b.id)
        self.stmt_events = {}
        for b in f.blocks.values():
            evs = []
            for s in b.stmts:
                m = re.match(r"^(\(.*PartialKeypair\)\.1: std::option::Option<ed25519_dalek::SigningKey>\)) = (.*);$", s)
                if m:
                    val = self.resolve(m.group(2))
                    tgt = "header.key_pair.secret" if "oplog::header::Header" in m.group(1) else "key_pair.secret"
                    evs.append("set:%s=%s" % (tgt, "None" if "::None" in val else "other"))
                m = re.match(r"^\(\(\(\(\*_1\)\.\d+: oplog::header::Header\)\.\d+: oplog::header::HeaderHints\)\.\d+: u64\) = (.*);$", s)
                if m:
                    evs.append("set:contig=" + ("start" if m.group(1).strip() == "copy _2" else "other"))
                m = re.match(r"^\(\(\*_1\)\.\d+: oplog::header::Header\) = (.*);$", s)
                if m:
                    rhs = self.resolve(m.group(1))
                    if "Oplog::append_changeset" in rhs and re.search(r"\.0: oplog::header::Header\)", rhs) and "update_contiguous_length" not in rhs:
                        evs.append("set:header=outcome.header")
                    else:
                        evs.append("set:header=other")
                m = re.match(r"^(_\d+) = move (_\d+);$", s)
                if m and any(re.search(r"^Option::<(common::)?node::Node>::None$", d) for d in self.defs.get(m.group(2), [])):
                    evs.append("block_root:=None")
                if re.search(r"= Option::<(common::peer::)?Proof>::None;$", s):
                    evs.append("proof:None")
                if re.search(r"= (common::error::)?HypercoreError::NotWritable;$", s):
                    evs.append("err:NotWritable")
                if re.search(r"= (common::error::)?HypercoreError::BadArgument \{", s):
                    evs.append("err:BadArgument")
                m = re.match(r"^_0 = (std::result::)?Result::<bool, .*>::Ok\(const (true|false)\);$", s)
                if m:
                    evs.append("ok:" + m.group(2))
            if evs:
                self.stmt_events[b.id] = evs

    def resolve(self, text, depth=0):
        """expand locals in text by their (single) definitions, a few levels deep"""
        if depth > 6:
            return text

        def rep(m):
            d = self.defs.get(m.group(0))
            if not d or len(d) != 1:
                return m.group(0)
            if d[0].startswith("call:"):
                b = self.f.blocks[int(d[0][5:])]
                return "%s(%s)" % (b.ti["callee"], self.resolve(b.ti["args"], depth + 1))
            return "(" + self.resolve(d[0], depth + 1) + ")"
        return re.sub(r"_\d+\b", rep, text)

    def producers(self, text, seen=None):
        seen = seen if seen is not None else set()
        out = set()
        for loc in re.findall(r"_\d+\b", text):
            if loc in seen:
                continue
            seen.add(loc)
            for d in self.defs.get(loc, []):
                if d.startswith("call:"):
                    b = self.f.blocks[int(d[5:])]
                    ev = event_of(b.ti["callee"], b.ti["args"], self.f.nparams)
                    if ev and ev.split("(")[0] in PRODUCERS:
                        out.add(ev.split("(")[0])
                    else:
                        out |= self.producers(b.ti["args"], seen)
                else:
                    out |= self.producers(d, seen)
        return out

    def governing_call(self, op):
        """If switch operand `op` is the discriminant of (a Try::branch of) a fallible call result,
        return that call's block id."""
        loc = re.search(r"_\d+", op)
        seen = set()
        while loc:
            l = loc.group(0)
            if l in seen:
                return None
            seen.add(l)
            d = self.defs.get(l)
            if not d or len(d) != 1:
                return None
            d = d[0]
            if d.startswith("call:"):
                bid = int(d[5:])
                b = self.f.blocks[bid]
                c = b.ti["callee"]
                if bid in self.fallible:
                    return bid
                if re.search(r"as Try>::branch$|Result::<.*>::(map_err|map)::<", c) or re.search(r"^Result::<", c):
                    loc = re.search(r"_\d+", b.ti["args"])
                    continue
                return None
            if d.startswith("discriminant(") or d.startswith("move ") or d.startswith("copy "):
                loc = re.search(r"_\d+", d)
                continue
            return None
        return None

    def branch_label(self, op):
        txt = self.resolve(op)
        for rx, lab in BRANCH_RULES:
            if re.search(rx, txt):
                return lab
        return None


# ------------------------------------------------------------------------------------------ monitors
BAD = -1


class Seq:
    """Monitor: the listed events may only occur in this order (each at most once); events not
    listed are ignored.  `opt` = indices that may be skipped.  ok_end = monitor positions allowed
    when the function returns Ok; err_max = highest position allowed when it returns Err
    (None = any)."""

    def __init__(self, seq, opt=(), ok_end=None, err_max=None, forbid=()):
        self.seq, self.opt = list(seq), set(opt)
        self.alpha = set(self.seq) | set(forbid)
        self.forbid = set(forbid)
        self.n = len(self.seq)
        self.ok_end = set(ok_end) if ok_end is not None else {self.n}
        self.err_max = err_max

    def states(self):
        return list(range(self.n + 1))

    def step(self, q, ev):
        if ev not in self.alpha:
            return q
        if ev in self.forbid:
            return BAD
        i = q
        while i < self.n:
            if self.seq[i] == ev:
                return i + 1
            if i in self.opt:
                i += 1
                continue
            break
        return BAD

    def ok_accept(self, q):
        # trailing optional elements may be skipped
        i = q
        while True:
            if i in self.ok_end:
                return True
            if i < self.n and i in self.opt:
                i += 1
                continue
            return False

    def err_accept(self, q):
        return self.err_max is None or q <= self.err_max


# ------------------------------------------------------------------------------------------ CHC
def check(model, monitor, prop_kind):
    """Reachability of a bad state in the abstract transition system, decided by Z3's fixedpoint
    (Datalog) engine over finite-domain sorts: all paths, loops included (no unrolling bound).
    prop_kind: 'monitor' (bad monitor step, or return in a non-accepting monitor state) or
    'errsurface'.  Returns dict(result='holds'|'violated'|'unknown', reasons=[...], ...)."""
    import z3
    f = model.f
    t0 = time.time()
    fp = z3.Fixedpoint()
    fp.set(engine="datalog")
    blocks = sorted(b for b in f.blocks if not f.blocks[b].cleanup)
    qstates = monitor.states() if monitor else [0]
    srcs = [-1] + sorted(model.fallible)
    PC = z3.FiniteDomainSort("PC", max(f.blocks) + 2)
    Q = z3.FiniteDomainSort("Q", len(qstates) + 1)
    RK = z3.FiniteDomainSort("RK", 4)
    BO = z3.FiniteDomainSort("BO", 2)
    SRC = z3.FiniteDomainSort("SRC", len(srcs) + 1)
    CODE = z3.FiniteDomainSort("CODE", 4096)
    qi = {q: i for i, q in enumerate(qstates)}
    si = {x: i for i, x in enumerate(srcs)}

    def pcv(x): return z3.FiniteDomainVal(x, PC)
    def qv(x): return z3.FiniteDomainVal(qi[x], Q)
    def rkv(x): return z3.FiniteDomainVal(x, RK)
    def bo(x): return z3.FiniteDomainVal(1 if x else 0, BO)
    def srcv(x): return z3.FiniteDomainVal(si[x], SRC)
    R = z3.Function("R", PC, Q, RK, BO, SRC, BO, z3.BoolSort())  # pc q rk lf lfsrc af
    Bad = z3.Function("Bad", CODE, z3.BoolSort())
    fp.register_relation(R, Bad)
    rk, lf, lfsrc, af = z3.Const("rk", RK), z3.Const("lf", BO), z3.Const("lfsrc", SRC), z3.Const("af", BO)
    cvar = z3.Const("c", CODE)
    fp.declare_var(rk, lf, lfsrc, af, cvar)
    fp.fact(R(pcv(0), qv(0), rkv(0), bo(False), srcv(-1), bo(False)))
    nrules = [0]

    def rule(head, body):
        fp.rule(head, body)
        nrules[0] += 1

    def mon_step(q0, evs):
        for e in evs:
            if q0 == BAD:
                return BAD
            q0 = monitor.step(q0, e) if monitor else q0
        return q0
    codes = {}

    def bad(reason, body):
        code = codes.setdefault(reason, len(codes) + 1)
        rule(Bad(z3.FiniteDomainVal(code, CODE)), body)

    for bid in blocks:
        b = f.blocks[bid]
        ti = b.ti
        rk_new = None
        for s_ in b.stmts:
            if re.match(r"^_0 = (std::result::)?Result::<.*>::Ok\(", s_):
                rk_new = 1
            elif re.match(r"^_0 = (std::result::)?Result::<.*>::Err\(", s_):
                rk_new = 2
            elif re.match(r"^_0 = ", s_):
                rk_new = 3 if f.ret_result else None
        evs_block = list(model.stmt_events.get(bid, []))
        if bid in model.event:
            evs_block.append(model.event[bid])
        is_storage = bid in model.event and model.event[bid].split(":")[0] in STORAGE_EVENTS_PREFIX
        for q0 in qstates:
            q1 = mon_step(q0, evs_block)
            pre = [R(pcv(bid), qv(q0), rk, lf, lfsrc, af)]
            if q1 == BAD:
                if prop_kind == "monitor":
                    bad("order violated at bb%d by %s (monitor position %s)" % (bid, evs_block, q0), pre)
                continue
            if prop_kind == "errsurface" and is_storage:
                bad("storage operation at bb%d issued after an earlier storage failure" % bid,
                    [R(pcv(bid), qv(q0), rk, lf, lfsrc, bo(True))])
            rk_e = rk if rk_new is None else rkv(rk_new)
            if ti["kind"] == "return":
                # the return kind seen at `return` is the one set on the way (rk), possibly by this block
                for rkval in (0, 1, 2, 3):
                    cur = rkval if rk_new is None else rk_new
                    pre_k = [R(pcv(bid), qv(q0), rkv(rkval), lf, lfsrc, af)]
                    if prop_kind == "monitor":
                        if f.ret_result:
                            if cur != 2 and not monitor.ok_accept(q0):
                                bad("returns Ok at monitor position %s (required sequence incomplete or not allowed to succeed here)" % q0, pre_k)
                            if cur == 2 and not monitor.err_accept(q0):
                                bad("returns Err at monitor position %s (effects that must not precede a failing return)" % q0, pre_k)
                        elif not monitor.ok_accept(q0):
                            bad("returns at monitor position %s (required sequence incomplete)" % q0, pre_k)
                    elif cur != 2:
                        bad("returns Ok (or an unclassified value) although a storage-backed call failed",
                            [R(pcv(bid), qv(q0), rkv(rkval), lf, lfsrc, bo(True))])
                continue
            if ti["kind"] == "call":
                if not ti["succ"]:
                    continue
                nxt = ti["succ"][0][1]
                into_ret = ti.get("dest") == "_0" and f.ret_result
                if re.search(r"as FromResidual<", ti["callee"]) and ti.get("dest") == "_0":
                    rule(R(pcv(nxt), qv(q1), rkv(2), lf, lfsrc, af), pre)
                elif bid in model.fallible:
                    rule(R(pcv(nxt), qv(q1), (rkv(1) if into_ret else rk_e), bo(False), srcv(bid), af), pre)
                    rule(R(pcv(nxt), qv(q1), (rkv(2) if into_ret else rk_e), bo(True), srcv(bid), bo(True)), pre)
                else:
                    rule(R(pcv(nxt), qv(q1), (rkv(3) if into_ret else rk_e), lf, lfsrc, af), pre)
                continue
            if ti["kind"] == "switch":
                gov = model.governing_call(ti["op"])
                lab = model.branch_label(ti["op"])
                for k, tgt in ti["succ"]:
                    q2 = q1
                    if lab is not None:
                        val = "0" if k == "0" else ("nz" if k in ("otherwise", "1") else k)
                        q2 = mon_step(q1, ["%s:%s" % (lab, val)])
                    pres = []
                    if gov is not None:
                        if k not in ("0", "1"):
                            continue
                        # governed by the outcome of the most recent fallible call (0 = Ok, 1 = Err)
                        pres.append([R(pcv(bid), qv(q0), rk, bo(k == "1"), srcv(gov), af)])
                        # (if the most recent fallible call is a different one the switch is free)
                        for other in srcs:
                            if other != gov:
                                pres.append([R(pcv(bid), qv(q0), rk, lf, srcv(other), af)])
                    else:
                        pres.append(pre)
                    for pr in pres:
                        if q2 == BAD:
                            if prop_kind == "monitor":
                                bad("order violated on branch %s at bb%d (monitor position %s)" % (lab, bid, q1), pr)
                            continue
                        rule(R(pcv(tgt), qv(q2), rk_e, lf, lfsrc, af) if pr is pre else
                             R(pcv(tgt), qv(q2), rk_e, pr[0].arg(3), pr[0].arg(4), af), pr)
                continue
            for _, tgt in ti["succ"]:
                rule(R(pcv(tgt), qv(q1), rk_e, lf, lfsrc, af), pre)
    res = dict(result="holds", rules=nrules[0], reasons=[], locations=len(blocks) * len(qstates))
    # vacuity witness: the monitor's final accepting state (resp. a failing return) must be reachable
    Wit = z3.Function("Witness", z3.BoolSort())
    fp.register_relation(Wit)
    qq = z3.Const("qq", Q)
    pcc = z3.Const("pcc", PC)
    fp.declare_var(qq, pcc)
    rets = [bid for bid in blocks if f.blocks[bid].ti["kind"] == "return"]
    for bid in rets:
        if prop_kind == "monitor":
            fin = max([x for x in qstates if monitor.ok_accept(x)] or [0])
            fp.rule(Wit(), [R(pcv(bid), qv(fin), rk, lf, lfsrc, af)])
        elif model.fallible:
            fp.rule(Wit(), [R(pcv(bid), qq, rk, lf, lfsrc, bo(True))])
        else:
            fp.rule(Wit(), [R(pcv(bid), qq, rk, lf, lfsrc, af)])
    res["witness_reachable"] = bool(rets) and fp.query(Wit()) == z3.sat
    Any = z3.Function("AnyBad", z3.BoolSort())
    fp.register_relation(Any)
    fp.rule(Any(), [Bad(cvar)])
    nq = 1
    r = fp.query(Any()) if codes else z3.unsat
    if r == z3.sat:
        res["result"] = "violated"
        for reason, code in codes.items():
            nq += 1
            if fp.query(Bad(z3.FiniteDomainVal(code, CODE))) == z3.sat:
                res["reasons"].append(reason)
    elif r != z3.unsat:
        res["result"] = "unknown"
        res["reasons"].append("solver returned %s" % r)
    res["queries"] = nq
    res["bad_state_kinds"] = len(codes)
    res["seconds"] = round(time.time() - t0, 2)
    return res


class Table:
    """Monitor given as an explicit transition table {(state, event): state}.  Events that occur
    in no table entry and are not in `alpha` are ignored; an event of the alphabet without an entry
    in the current state is a violation.  ok / err = states in which the function may return
    Ok / Err."""

    def __init__(self, trans, ok, err, alpha=(), n=None, forbid_prefix=()):
        self.forbid_prefix = tuple(forbid_prefix)
        self.trans = dict(trans)
        self.alpha = set(alpha) | {e for (_, e) in self.trans}
        self.ok, self.err = set(ok), set(err)
        sts = {s for (s, _) in self.trans} | set(self.trans.values()) | self.ok | self.err | {0}
        self._states = sorted(sts)

    def states(self):
        return self._states

    def step(self, q, ev):
        if self.forbid_prefix and ev.startswith(self.forbid_prefix):
            return BAD
        if ev not in self.alpha:
            return q
        return self.trans.get((q, ev), BAD)

    def ok_accept(self, q):
        return q in self.ok

    def err_accept(self, q):
        return q in self.err


def loops(state, events):
    return {(state, e): state for e in events}


def merge(*ds):
    out = {}
    for d in ds:
        out.update(d)
    return out


FLUSH_F = "Hypercore::flush_bitfield_and_tree_and_oplog(1=false)"
FLUSH_T = "Hypercore::flush_bitfield_and_tree_and_oplog(1=true)"
ANY_MUTATION = ["BlockStore::append_batch", "BlockStore::put", "BlockStore::clear", "Oplog::append_changeset(3=false)",
                "Oplog::clear", "Bitfield::update", "Bitfield::set_range", "MerkleTree::commit", FLUSH_F, FLUSH_T,
                "send<DataUpgrade>", "send<Have>", "send<other>", "send_on_get",
                "W:BlockStore::append_batch", "W:BlockStore::put", "W:BlockStore::clear", "W:Oplog::append_changeset", "W:Oplog::clear", "W:?"]


def specs():
    """property -> list of (function, obligation text, monitor)"""
    S = {}
    # ---- C02: write-ahead order (data, then log entry = commit point, then in-memory state, then
    # the periodic flush: bitfield, tree, header+truncate)
    S["C02"] = [
        ("core::append_batch", "append: block data written, then the oplog entry, then the in-memory header takes the entry's tree head, then bitfield/contiguous length/tree commit in memory, then the periodic flush",
         Seq(["BlockStore::append_batch", "W:BlockStore::append_batch", "Oplog::append_changeset(3=false)", "W:Oplog::append_changeset",
              "set:header=outcome.header", "Bitfield::update", "update_contiguous_length", "MerkleTree::commit", FLUSH_F], opt={8}, ok_end={0, 9},
             forbid=["W:?", "Oplog::append_changeset", "W:BlockStore::append_batch+Oplog::append_changeset", FLUSH_T, "set:header=other"])),
        ("core::clear", "clear: oplog drop entry written first, then the bitfield, then the data hole, then the periodic flush",
         Seq(["Oplog::clear", "W:Oplog::clear", "Bitfield::set_range", "BlockStore::clear", "W:BlockStore::clear", FLUSH_F], opt={5}, ok_end={0, 6},
             forbid=["W:?", FLUSH_T])),
        ("core::verify_and_apply_proof", "proof application: verify, (block value written), oplog entry written, the in-memory header takes the entry's tree head on EVERY path (with or without a block), in-memory bitfield/tree commit, periodic flush",
         Seq(["Hypercore::verify_proof", "MerkleTree::commitable", "BlockStore::put", "W:BlockStore::put", "Oplog::append_changeset(3=false)",
              "W:Oplog::append_changeset", "set:header=outcome.header", "Bitfield::update", "update_contiguous_length", "MerkleTree::commit", FLUSH_F],
             opt={2, 3, 7, 8, 10}, ok_end={0, 2, 11}, forbid=["W:?", FLUSH_T, "set:header=other"])),
        ("core::flush_bitfield_and_tree_and_oplog", "flush: bitfield pages, then tree nodes, then the oplog header (which drops the log entries) last",
         Seq(["Bitfield::flush", "W:Bitfield::flush", "MerkleTree::flush", "W:MerkleTree::flush", "Oplog::flush(2=p2)", "W:Oplog::flush"],
             forbid=["W:?", "Oplog::flush", "Oplog::flush(2=true)", "Oplog::flush(2=false)"])),
    ]
    S["C02"].append(
        ("core::new", "open/replay: oplog opened and its infos flushed first, then tree and bitfield opened; per replayed entry: nodes added, bitfield update immediately followed by the contiguous-length update, truncate followed by the header update and the tree commit",
         Table(merge({(0, "Oplog::open"): 0, (0, "W:Oplog::open"): 1, (1, "MerkleTree::open"): 1, (1, "Bitfield::open"): 2, (2, "Bitfield::open"): 2,
                      (2, "MerkleTree::add_node"): 2, (2, "Bitfield::update"): 3, (3, "update_contiguous_length"): 2,
                      (2, "MerkleTree::truncate"): 4, (4, "MerkleTree::truncate"): 4, (4, "Oplog::update_header_with_changeset"): 5, (5, "MerkleTree::commit"): 2}),
               ok={2}, err={0, 1, 2, 3, 4, 5}, alpha=["W:?", "Bitfield::set_range", "Oplog::append_changeset(3=false)", "Oplog::flush(2=p2)"])))
    for fn in ("core::append_batch", "core::clear", "core::verify_and_apply_proof", "core::make_read_only", "core::new", "core::get", "core::create_proof"):
        S["C02"].append((fn, "%s never flushes bitfield, tree or oplog header itself: the only place that does is flush_bitfield_and_tree_and_oplog, which orders them (a header flush that skips the tree or the bitfield drops the only copy of pending entries' effects)" % fn.split("::")[-1],
                         Table({}, ok={0}, err={0}, forbid_prefix=["Oplog::flush", "Bitfield::flush", "MerkleTree::flush"])))
    # ---- C13: events only after the commit (and after the periodic flush, whose failure makes the
    # call fail), upgrade before have, nothing on a failing path, get event only for a missing block
    S["C13"] = [
        ("core::append_batch", "append emits DataUpgrade then Have, after commit and flush, and nothing on a path that returns Err",
         Table({(0, "MerkleTree::commit"): 1, (1, FLUSH_F): 2, (1, "send<DataUpgrade>"): 3, (2, "send<DataUpgrade>"): 3, (3, "send<Have>"): 4},
               ok={0, 4}, err={0, 1, 2}, alpha=["send<other>", "send_on_get", FLUSH_T])),
        ("core::verify_and_apply_proof", "accepted proof emits DataUpgrade (only after testing proof.upgrade) then Have, after commit and flush, nothing on a failing or refused path",
         Table({(0, "MerkleTree::commit"): 1, (1, FLUSH_F): 2,
                (1, "proof.upgrade:nz"): 3, (2, "proof.upgrade:nz"): 3, (1, "proof.upgrade:0"): 4, (2, "proof.upgrade:0"): 4,
                (3, "send<DataUpgrade>"): 4, (4, "send<Have>"): 5, (0, "proof.upgrade:nz"): 0, (0, "proof.upgrade:0"): 0},
               ok={0, 4, 5}, err={0, 1, 2}, alpha=["send<other>", "send_on_get", FLUSH_T])),
        ("core::get", "get emits exactly one Get event when the block is not held, none otherwise, and then reads nothing",
         Table({(0, "has:0"): 1, (1, "send_on_get"): 2, (0, "has:nz"): 3, (3, "R"): 3, (3, "Hypercore::byte_range"): 3, (3, "BlockStore::read"): 3},
               ok={2, 3}, err={3}, alpha=["send<DataUpgrade>", "send<Have>", "send<other>"])),
        ("core::clear", "clear emits no event", Table({}, ok={0}, err={0}, alpha=["send<DataUpgrade>", "send<Have>", "send<other>", "send_on_get"])),
        ("core::make_read_only", "make_read_only emits no event", Table({}, ok={0}, err={0}, alpha=["send<DataUpgrade>", "send<Have>", "send<other>", "send_on_get"])),
        ("core::flush_bitfield_and_tree_and_oplog", "flush emits no event", Table({}, ok={0}, err={0}, alpha=["send<DataUpgrade>", "send<Have>", "send<other>", "send_on_get"])),
    ]
    # ---- C03: a block the writer no longer holds yields no proof, not a wrong one
    S["C03"] = [
        ("core::create_proof", "create_proof: when the requested block's value cannot be read (cleared), Ok(None) is returned and no Proof is built; a Proof is built only after the value was read",
         Table({(0, "Hypercore::create_valueless_proof"): 1, (1, "Hypercore::get"): 2, (2, "value.is_none:nz"): 3, (3, "proof:None"): 4,
                (2, "value.is_none:0"): 5, (5, "into_proof"): 6, (1, "into_proof"): 6},
               ok={4, 6}, err={0, 1, 2}, alpha=[])),
    ]
    # ---- C05 (and C02 replay): truncate removes EVERY stale root before it fetches the new one
    S["C05"] = [
        ("merkle_tree::truncate", "truncate: a root is popped only under the guard `roots.len() > i` (resp. `> full_roots.len()` in the final trim), and after each pop the guard is evaluated again before the new root is looked up -- all stale roots go, not just one",
         Table({(0, "roots>i:nz"): 1, (1, "pop_root"): 2, (2, "roots>i:nz"): 1, (2, "roots>i:0"): 0, (0, "roots>i:0"): 0, (0, "required_node"): 0,
                (0, "roots>full:nz"): 3, (3, "pop_root"): 4, (4, "roots>full:nz"): 3, (4, "roots>full:0"): 0, (0, "roots>full:0"): 0},
               ok={0}, err={0}, alpha=[])),
    ]
    S["C02"].append(("merkle_tree::truncate", "replay on open: " + S["C05"][0][1], S["C05"][0][2]))
    # ---- C04: the block's root stays "to be compared with the replica's own node" unless the upgrade consumed it
    S["C04"] = [
        ("merkle_tree::verify_proof", "verify_proof: the pending comparison of the block/hash root with the replica's own node is dropped (set to None) only on the branch where verify_upgrade reports that the upgrade consumed that root -- a proof that merely carries a valid upgrade does not switch the block check off",
         Table({(0, "upgrade_consumed_block_root:nz"): 1, (1, "block_root:=None"): 0, (0, "upgrade_consumed_block_root:0"): 0},
               ok={0}, err={0, 1}, alpha=[])),
    ]
    # ---- C01: reads are gated by the bitfield
    S["C01"] = [
        ("core::get", "get: the bitfield is consulted first; a block that is not held returns Ok(None) without touching tree or data store; a held block is located through the tree (byte_range) and then read from the data store",
         Table({(0, "Bitfield::get"): 1, (1, "has:0"): 2, (2, "send_on_get"): 2, (1, "has:nz"): 3, (3, "Hypercore::byte_range"): 4, (4, "BlockStore::read"): 4, (4, "R"): 4},
               ok={2, 4}, err={3, 4}, alpha=["W:?", "MerkleTree::commit", "Bitfield::update", "Bitfield::set_range"])),
    ]
    # ---- C08: contiguous length maintenance in core.rs
    upd = lambda fn, what: (fn, what + ": every bitfield update is immediately followed by the contiguous-length update (before the tree commit / the next entry)",
                            Table({(0, "Bitfield::update"): 1, (1, "update_contiguous_length"): 0, (0, "MerkleTree::commit"): 0, (0, "MerkleTree::truncate"): 0}, ok={0}, err={0, 1}, alpha=["set:contig=start", "set:contig=other"]))
    S["C08"] = [
        upd("core::append_batch", "append"),
        upd("core::verify_and_apply_proof", "proof application"),
        ("core::new", "replay on open: every replayed bitfield update is immediately followed by the contiguous-length update",
         Table({(0, "Bitfield::update"): 1, (1, "update_contiguous_length"): 0, (0, "MerkleTree::commit"): 0, (0, "MerkleTree::truncate"): 0}, ok={0}, err={0, 1}, alpha=["set:contig=start", "set:contig=other"])),
        ("core::clear", "clear: after the bitfield range is dropped the contiguous length is lowered to `start` exactly on the branch `start < contiguous_length`, and assigned nowhere else",
         Table({(0, "Bitfield::set_range"): 1, (1, "start<contig:nz"): 2, (2, "set:contig=start"): 3, (1, "start<contig:0"): 3},
               ok={0, 3}, err={0, 1, 3}, alpha=["set:contig=other", "update_contiguous_length", "Bitfield::update"])),
    ]
    # ---- C12: key gates
    mut = [e for e in ANY_MUTATION]
    S["C12"] = [
        ("core::append_batch", "append on a core without secret key: NotWritable before anything else happens",
         Table(merge({(0, "secret:0"): 1, (0, "secret:nz"): 2, (0, "secret:1"): 2, (1, "err:NotWritable"): 3}, loops(2, mut + ["err:NotWritable"])),
               ok={2}, err={2, 3}, alpha=mut + ["err:NotWritable"])),
        ("core::make_read_only", "make_read_only: no-op returning false without a secret; otherwise both in-memory secrets dropped, then flush with clear_traces, then true",
         Table({(0, "secret:0"): 1, (1, "ok:false"): 2,
                (0, "secret:nz"): 3, (3, "set:key_pair.secret=None"): 4, (4, "set:header.key_pair.secret=None"): 5,
                (3, "set:header.key_pair.secret=None"): 6, (6, "set:key_pair.secret=None"): 5,
                (5, FLUSH_T): 7, (7, "ok:true"): 8},
               ok={2, 8}, err={7}, alpha=mut + ["ok:true", "ok:false", "set:key_pair.secret=other", "set:header.key_pair.secret=other"])),
        ("core::flush_bitfield_and_tree_and_oplog", "the clear_traces flag reaches Oplog::flush unchanged",
         Table({(0, "Oplog::flush(2=p2)"): 1}, ok={1}, err={0, 1}, alpha=["Oplog::flush", "Oplog::flush(2=true)", "Oplog::flush(2=false)"])),
        ("core::new", "builder: key pair together with open mode is rejected before any storage access",
         Table(merge({(0, "options.open:0"): 1, (0, "options.open:nz"): 2, (2, "options.key_pair:nz"): 3, (2, "options.key_pair:1"): 3,
                      (2, "options.key_pair:0"): 1, (3, "err:BadArgument"): 4},
                     loops(1, ["Oplog::open", "R", "W:Oplog::open", "MerkleTree::open", "Bitfield::open", "options.key_pair:0", "options.key_pair:nz", "options.key_pair:1", "err:BadArgument"])),
               ok={1}, err={1, 4}, alpha=["Oplog::open", "R", "W:Oplog::open", "W:?", "MerkleTree::open", "Bitfield::open"])),
    ]
    return S


ERRSURFACE_FUNCS = ["core::new", "core::append", "core::append_batch", "core::get", "core::clear", "core::create_proof",
                    "core::verify_and_apply_proof", "core::missing_nodes", "core::missing_nodes_from_merkle_tree_index",
                    "core::make_read_only", "core::byte_range", "core::create_valueless_proof", "core::verify_proof",
                    "core::flush_bitfield_and_tree_and_oplog"]


def run(props, mir_text):
    """Returns {prop: [obligation dicts]}"""
    funcs = parse_mir(mir_text)
    out = {}
    S = specs()
    models = {}

    def model(fn):
        if fn not in models:
            if fn not in funcs:
                return None
            models[fn] = Model(funcs[fn], funcs)
        return models[fn]
    for p in props:
        obs = []
        if p == "C10":
            for fn in ERRSURFACE_FUNCS:
                m = model(fn)
                if m is None:
                    obs.append(dict(name="mir_errsurface_" + fn.split("::")[-1], function=fn, result="missing", reasons=["function not found in the MIR dump"]))
                    continue
                r = check(m, None, "errsurface")
                r.update(name="mir_errsurface_" + fn.split("::")[-1], function=fn,
                         obligation="every storage-backed call whose result is Err makes %s return Err, and no storage operation is issued after a failed one" % fn,
                         blocks=len(m.f.blocks), fallible_calls=len(m.fallible))
                obs.append(r)
        for fn, text, mon in S.get(p, []):
            m = model(fn)
            nm = "mir_%s_%s" % (p.lower(), fn.split("::")[-1])
            if any(o.get("name") == nm for o in obs):
                nm += "_noflush" if getattr(mon, "forbid_prefix", None) else "_%d" % len(obs)
            if m is None:
                obs.append(dict(name=nm, function=fn, result="missing", reasons=["function not found in the MIR dump"]))
                continue
            r = check(m, mon, "monitor")
            r.update(name=nm, function=fn, obligation=text, blocks=len(m.f.blocks),
                     events=sorted(set(m.event.values()) | {e for v in m.stmt_events.values() for e in v}))
            obs.append(r)
        out[p] = obs
    vals = run_values(props, funcs)
    for p in props:
        out[p] = out.get(p, []) + vals.get(p, [])
    return out


# ------------------------------------------------------------------------------------------ values
# Value obligations: the operand handed to a component call (or stored in an aggregate) is
# evaluated symbolically over the function's MIR -- locals are expanded by their single
# definitions into a term over the parameters, `self`'s fields and call results -- and compared
# with the expected term.  The comparison is a validity query to Z3 (64-bit bit-vectors for the
# arithmetic, every other sub-term an uninterpreted constant named by its normal form), so
# `end - start` written as `SubWithOverflow(_3, _2).0` or in any equivalent arithmetic form is
# accepted, and `end`, `end - start + 1`, another field or another local are rejected.
def norm_term(t):
    t = re.sub(r"\b(copy|move|no_retag) ", "", t)
    t = re.sub(r"\s+", "", t)
    # strip type ascriptions of field projections: (X.1:u64) -> (X.1)
    t = re.sub(r"\.(\d+):[^()]*?\)", r".\1)", t)
    prev = None
    while prev != t:
        prev = t
        t = re.sub(r"\(\(([^()]*)\)\)", r"(\1)", t)
        if t.startswith("(") and t.endswith(")") and _balanced(t[1:-1]):
            t = t[1:-1]
    return t


def _balanced(s):
    d = 0
    for ch in s:
        if ch == "(":
            d += 1
        elif ch == ")":
            d -= 1
            if d < 0:
                return False
    return d == 0


def term_to_z3(t, z3, cache):
    t = norm_term(t)
    m = re.match(r"^\((Sub|Add|Mul)WithOverflow\((.*)\)\)\.0$", t) or re.match(r"^(Sub|Add|Mul)WithOverflow\((.*)\)\.0$", t) or re.match(r"^(Sub|Add|Mul)\((.*)\)$", t)
    if m and _balanced(m.group(2)):
        args = split_args(m.group(2))
        if len(args) == 2:
            a, b = term_to_z3(args[0], z3, cache), term_to_z3(args[1], z3, cache)
            return {"Sub": a - b, "Add": a + b, "Mul": a * b}[m.group(1)]
    m = re.match(r"^const(\d+)_(u64|usize|u32|u8)$", t)
    if m:
        return z3.BitVecVal(int(m.group(1)), 64)
    # leaves: uninterpreted constants named by the term with reference/deref/grouping noise removed
    key = re.sub(r"[()&*]", "", t)
    if key not in cache:
        cache[key] = z3.BitVec("t%d" % len(cache), 64)
    return cache[key]


def value_specs():
    """property -> [(function, description, selector, expected term text)].
    selector: ("arg", callee event name, index) | ("field", aggregate name, field)"""
    CS = "MerkleTree::changeset(&((*_1).3))"  # the changeset built from self.tree
    BLK = "(*(*(&(((*(&Option::<DataBlock>::as_ref(&((*_2).1)))))asSome).0)))"
    V = {}
    V["C01"] = [
        ("core::append_batch", "block data is written at the tree's current byte length", ("arg", "BlockStore::append_batch", 3), "(((*_1).3).2)"),
        ("core::append_batch", "AppendOutcome.length is the tree length", ("field", "AppendOutcome", "length"), "(((*_1).3).1)"),
        ("core::append_batch", "AppendOutcome.byte_length is the tree byte length", ("field", "AppendOutcome", "byte_length"), "(((*_1).3).2)"),
        ("core::clear", "the oplog drop entry starts at `start`", ("arg", "Oplog::clear", 1), "_2"),
        ("core::clear", "the oplog drop entry ends at `end`", ("arg", "Oplog::clear", 2), "_3"),
        ("core::get", "the byte range looked up is the requested index", ("arg", "Hypercore::byte_range", 1), "_2"),
    ]
    V["C08"] = [
        ("core::append_batch", "the bitfield update of an append starts at the changeset's ancestors (old length)", ("field", "BitfieldUpdate", "start"), "(%s.1)" % CS),
        ("core::append_batch", "... and covers the batch length", ("field", "BitfieldUpdate", "length"), "(%s.3)" % CS),
        ("core::append_batch", "... and is not a drop", ("field", "BitfieldUpdate", "drop"), "constfalse"),
        ("core::clear", "clear drops bits from `start`", ("arg", "Bitfield::set_range", 1), "_2"),
        ("core::clear", "clear drops `end - start` bits", ("arg", "Bitfield::set_range", 2), "Sub(_3, _2)"),
        ("core::clear", "clear clears (value false)", ("arg", "Bitfield::set_range", 3), "constfalse"),
        ("core::get", "has-gate of get tests the requested index", ("arg", "Bitfield::get", 1), "_2"),
        ("core::verify_and_apply_proof", "a received block sets exactly bit block.index", ("field", "BitfieldUpdate", "start"), "(%s.0)" % BLK),
        ("core::verify_and_apply_proof", "... one bit", ("field", "BitfieldUpdate", "length"), "const1_u64"),
    ]
    V["C13"] = [
        ("core::get", "the Get event carries the requested index", ("arg", "send_on_get", 1), "_2"),
    ]
    return V


def run_values(props, funcs):
    import z3
    out = {}
    VS = value_specs()
    for p in props:
        obs = []
        for i, (fn, desc, sel, expected) in enumerate(VS.get(p, [])):
            name = "mirval_%s_%s_%d" % (p.lower(), fn.split("::")[-1], i)
            t0 = time.time()
            if fn not in funcs:
                obs.append(dict(name=name, function=fn, obligation=desc, result="missing", reasons=["function not found"]))
                continue
            m = Model(funcs[fn], funcs)
            found = []
            for bid in sorted(m.f.blocks):
                b = m.f.blocks[bid]
                if b.cleanup:
                    continue
                if sel[0] == "arg" and b.ti["kind"] == "call" and m.event.get(bid, "").split("(")[0] == sel[1]:
                    args = split_args(b.ti["args"])
                    if sel[2] < len(args):
                        found.append((bid, m.resolve(args[sel[2]])))
                if sel[0] == "field":
                    for s_ in b.stmts:
                        mm = re.match(r"^\S+ = (?:\w+::)*%s \{(.*)\};$" % re.escape(sel[1]), s_)
                        if mm:
                            for part in split_args(mm.group(1)):
                                k, _, v = part.strip().partition(": ")
                                if k == sel[2]:
                                    found.append((bid, m.resolve(v)))
            res = dict(name=name, function=fn, obligation=desc, queries=0, reasons=[], witness_reachable=bool(found), rules=0, locations=0)
            if not found:
                res.update(result="violated", reasons=["no %s %s found in %s (the value this obligation is about is no longer produced)" % (sel[0], sel[1:], fn)])
            else:
                ok = True
                for bid, txt in found:
                    cache = {}
                    a, e = term_to_z3(txt, z3, cache), term_to_z3(expected, z3, cache)
                    s = z3.Solver()
                    s.add(a != e)
                    res["queries"] += 1
                    r = s.check()
                    if r != z3.unsat:
                        ok = False
                        res["reasons"].append("bb%d: value is `%s`, expected `%s`%s" % (bid, norm_term(txt)[:160], norm_term(expected), "" if r == z3.sat else " (solver: %s)" % r))
                res["result"] = "holds" if ok else "violated"
            res["seconds"] = round(time.time() - t0, 3)
            obs.append(res)
        out[p] = obs
    return out


if __name__ == "__main__":
    jout = None
    if sys.argv[1] == "--json":
        jout = sys.argv[2]
        del sys.argv[1:3]
    txt = open(sys.argv[1]).read()
    res = run(sys.argv[2:] or ["C02", "C10", "C12", "C13"], txt)
    if jout:
        json.dump(res, open(jout, "w"), indent=1)
    for p, obs in res.items():
        for o in obs:
            print(p, o["name"], o["result"], o.get("seconds"), o.get("queries"), o.get("reasons"))
