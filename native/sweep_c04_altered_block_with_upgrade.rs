//! C04 demonstration: a proof that combines a *genuine, signed* upgrade with an
//! *altered* block lying in the part of the log the replica already knows about
//! must be refused and must leave the replica untouched.

use hypercore::{
    Hypercore, HypercoreBuilder, HypercoreError, PartialKeypair, RequestBlock, RequestUpgrade,
    Storage,
};

async fn writer_with(n: u64) -> Result<Hypercore, HypercoreError> {
    let storage = Storage::new_memory().await?;
    let mut hc = HypercoreBuilder::new(storage).build().await?;
    for i in 0..n {
        hc.append(format!("#{}", i).as_bytes()).await?;
    }
    Ok(hc)
}

async fn replica_of(writer: &Hypercore) -> Result<Hypercore, HypercoreError> {
    let storage = Storage::new_memory().await?;
    HypercoreBuilder::new(storage)
        .key_pair(PartialKeypair {
            public: writer.key_pair().public,
            secret: None,
        })
        .build()
        .await
}

#[tokio::test]
async fn altered_block_riding_on_genuine_upgrade_is_refused() -> Result<(), HypercoreError> {
    // Step 1: writer has 4 blocks, replica syncs length 4 and block 0 honestly.
    let mut writer = writer_with(4).await?;
    let mut replica = replica_of(&writer).await?;

    let nodes = replica.missing_nodes(0).await?;
    let proof = writer
        .create_proof(
            Some(RequestBlock { index: 0, nodes }),
            None,
            None,
            Some(RequestUpgrade {
                start: 0,
                length: 4,
            }),
        )
        .await?
        .unwrap();
    assert!(replica.verify_and_apply_proof(&proof).await?);
    assert_eq!(replica.info().length, 4);
    assert_eq!(replica.get(0).await?.unwrap(), b"#0");
    assert!(replica.get(1).await?.is_none());

    // Step 2: writer grows to 8 blocks.
    for i in 4..8 {
        writer.append(format!("#{}", i).as_bytes()).await?;
    }

    // Step 3: a malicious peer relays a genuine upgrade 4 -> 8 but alters the bytes of
    // block 1, which lies in the already-signed-for region [0, 4) of the replica.
    let nodes = replica.missing_nodes(1).await?;
    let mut forged = writer
        .create_proof(
            Some(RequestBlock { index: 1, nodes }),
            None,
            None,
            Some(RequestUpgrade {
                start: 4,
                length: 4,
            }),
        )
        .await?
        .unwrap();
    assert_eq!(forged.block.as_ref().unwrap().value, b"#1");
    forged.block.as_mut().unwrap().value = b"!!".to_vec();

    let before = replica.info();
    let outcome = replica.verify_and_apply_proof(&forged).await;
    assert!(
        !matches!(outcome, Ok(true)),
        "altered block accepted by the replica: {outcome:?}"
    );

    // A refused proof leaves every observation unchanged.
    assert_eq!(replica.info(), before);
    assert!(!replica.has(1));
    assert!(replica.get(1).await?.is_none());
    assert_eq!(replica.get(0).await?.unwrap(), b"#0");

    // Step 4: honest replication can still complete and every block equals the writer's.
    let nodes = replica.missing_nodes(1).await?;
    let honest = writer
        .create_proof(
            Some(RequestBlock { index: 1, nodes }),
            None,
            None,
            Some(RequestUpgrade {
                start: 4,
                length: 4,
            }),
        )
        .await?
        .unwrap();
    assert!(replica.verify_and_apply_proof(&honest).await?);
    for index in 2..8 {
        let nodes = replica.missing_nodes(index).await?;
        let proof = writer
            .create_proof(Some(RequestBlock { index, nodes }), None, None, None)
            .await?
            .unwrap();
        assert!(replica.verify_and_apply_proof(&proof).await?);
    }
    assert_eq!(replica.info().length, writer.info().length);
    assert_eq!(replica.info().byte_length, writer.info().byte_length);
    for index in 0..8 {
        assert_eq!(replica.get(index).await?, writer.get(index).await?);
    }
    Ok(())
}
