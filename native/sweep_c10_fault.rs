//! C10 demonstration: a single failing storage operation during a call must surface as an error,
//! and dropping the instance and reopening the same storage must give the state before or after
//! that call, with every earlier acknowledged operation intact.
//!
//! The test sweeps a single fault over every storage operation performed by one `append` call
//! that happens to be the one that flushes bitfield, tree and oplog header, while a few earlier
//! acknowledged appends are still only recorded as oplog entries.
use std::future::Future;
use std::pin::Pin;
use std::sync::{Arc, Mutex};

use hypercore::{generate_signing_key, Hypercore, HypercoreBuilder, PartialKeypair, Storage, Store};
use random_access_storage::{RandomAccess, RandomAccessError};

/// Shared fault plan: when armed, operations are counted and the `fail_at`th one fails
/// without having any effect on the stored bytes.
#[derive(Debug, Default)]
struct Faults {
    armed: bool,
    counter: usize,
    fail_at: Option<usize>,
    fired: bool,
}

/// The "disk": four byte vectors that outlive any Hypercore instance.
#[derive(Debug, Clone, Default)]
struct Disk {
    tree: Arc<Mutex<Vec<u8>>>,
    data: Arc<Mutex<Vec<u8>>>,
    bitfield: Arc<Mutex<Vec<u8>>>,
    oplog: Arc<Mutex<Vec<u8>>>,
    faults: Arc<Mutex<Faults>>,
}

#[derive(Debug)]
struct FaultyFile {
    bytes: Arc<Mutex<Vec<u8>>>,
    faults: Arc<Mutex<Faults>>,
}

impl FaultyFile {
    /// Returns an error if this operation is the one selected to fail.
    fn tick(&self) -> Result<(), RandomAccessError> {
        let mut faults = self.faults.lock().unwrap();
        if !faults.armed {
            return Ok(());
        }
        let index = faults.counter;
        faults.counter += 1;
        if faults.fail_at == Some(index) {
            faults.fired = true;
            return Err(RandomAccessError::IO {
                return_code: None,
                context: Some("injected fault".to_string()),
                source: std::io::Error::new(std::io::ErrorKind::Other, "injected fault"),
            });
        }
        Ok(())
    }

    fn do_write(&self, offset: u64, data: &[u8]) -> Result<(), RandomAccessError> {
        self.tick()?;
        let mut bytes = self.bytes.lock().unwrap();
        let end = offset as usize + data.len();
        if bytes.len() < end {
            bytes.resize(end, 0);
        }
        bytes[offset as usize..end].copy_from_slice(data);
        Ok(())
    }

    fn do_read(&self, offset: u64, length: u64) -> Result<Vec<u8>, RandomAccessError> {
        self.tick()?;
        let bytes = self.bytes.lock().unwrap();
        if offset + length > bytes.len() as u64 {
            return Err(RandomAccessError::OutOfBounds {
                offset,
                end: Some(offset + length),
                length: bytes.len() as u64,
            });
        }
        Ok(bytes[offset as usize..(offset + length) as usize].to_vec())
    }

    fn do_del(&self, offset: u64, length: u64) -> Result<(), RandomAccessError> {
        self.tick()?;
        let mut bytes = self.bytes.lock().unwrap();
        let len = bytes.len() as u64;
        if offset > len {
            return Err(RandomAccessError::OutOfBounds {
                offset,
                end: None,
                length: len,
            });
        }
        if length == 0 {
            return Ok(());
        }
        if offset + length >= len {
            bytes.truncate(offset as usize);
        } else {
            for b in &mut bytes[offset as usize..(offset + length) as usize] {
                *b = 0;
            }
        }
        Ok(())
    }

    fn do_truncate(&self, length: u64) -> Result<(), RandomAccessError> {
        self.tick()?;
        self.bytes.lock().unwrap().resize(length as usize, 0);
        Ok(())
    }

    fn do_len(&self) -> Result<u64, RandomAccessError> {
        self.tick()?;
        Ok(self.bytes.lock().unwrap().len() as u64)
    }
}

type BoxFut<'a, T> = Pin<Box<dyn Future<Output = Result<T, RandomAccessError>> + Send + 'a>>;

// Hand-written equivalent of `#[async_trait] impl RandomAccess` (async-trait is not a direct
// dev-dependency). Every operation completes synchronously.
impl RandomAccess for FaultyFile {
    fn write<'life0, 'life1, 'async_trait>(
        &'life0 mut self,
        offset: u64,
        data: &'life1 [u8],
    ) -> BoxFut<'async_trait, ()>
    where
        'life0: 'async_trait,
        'life1: 'async_trait,
        Self: 'async_trait,
    {
        let res = self.do_write(offset, data);
        Box::pin(std::future::ready(res))
    }

    fn read<'life0, 'async_trait>(
        &'life0 mut self,
        offset: u64,
        length: u64,
    ) -> BoxFut<'async_trait, Vec<u8>>
    where
        'life0: 'async_trait,
        Self: 'async_trait,
    {
        let res = self.do_read(offset, length);
        Box::pin(std::future::ready(res))
    }

    fn del<'life0, 'async_trait>(&'life0 mut self, offset: u64, length: u64) -> BoxFut<'async_trait, ()>
    where
        'life0: 'async_trait,
        Self: 'async_trait,
    {
        let res = self.do_del(offset, length);
        Box::pin(std::future::ready(res))
    }

    fn truncate<'life0, 'async_trait>(&'life0 mut self, length: u64) -> BoxFut<'async_trait, ()>
    where
        'life0: 'async_trait,
        Self: 'async_trait,
    {
        let res = self.do_truncate(length);
        Box::pin(std::future::ready(res))
    }

    fn len<'life0, 'async_trait>(&'life0 mut self) -> BoxFut<'async_trait, u64>
    where
        'life0: 'async_trait,
        Self: 'async_trait,
    {
        let res = self.do_len();
        Box::pin(std::future::ready(res))
    }

    fn is_empty<'life0, 'async_trait>(&'life0 mut self) -> BoxFut<'async_trait, bool>
    where
        'life0: 'async_trait,
        Self: 'async_trait,
    {
        let res = self.do_len().map(|len| len == 0);
        Box::pin(std::future::ready(res))
    }

    fn sync_all<'life0, 'async_trait>(&'life0 mut self) -> BoxFut<'async_trait, ()>
    where
        'life0: 'async_trait,
        Self: 'async_trait,
    {
        let res = self.tick();
        Box::pin(std::future::ready(res))
    }
}

async fn open_storage(disk: &Disk) -> Storage {
    let disk = disk.clone();
    Storage::open(
        move |store: Store| {
            let bytes = match store {
                Store::Tree => disk.tree.clone(),
                Store::Data => disk.data.clone(),
                Store::Bitfield => disk.bitfield.clone(),
                Store::Oplog => disk.oplog.clone(),
            };
            let faults = disk.faults.clone();
            Box::pin(async move {
                Ok(Box::new(FaultyFile { bytes, faults }) as Box<dyn hypercore::StorageTraits + Send>)
            })
        },
        false,
    )
    .await
    .expect("opening storage without faults must succeed")
}

fn block(i: u64) -> Vec<u8> {
    format!("block-number-{i:04}").into_bytes()
}

/// Number of acknowledged appends before the faulted call. The first append of an instance
/// flushes everything, the following three only add oplog entries, and the fifth flushes again.
const ACKED: u64 = 4;

/// Creates a new core on a new disk and performs the acknowledged appends.
async fn prepare(key_pair: &PartialKeypair) -> (Disk, Hypercore) {
    let disk = Disk::default();
    let storage = open_storage(&disk).await;
    let mut core = HypercoreBuilder::new(storage)
        .key_pair(key_pair.clone())
        .build()
        .await
        .expect("create");
    for i in 0..ACKED {
        let outcome = core.append(&block(i)).await.expect("acknowledged append");
        assert_eq!(outcome.length, i + 1);
    }
    (disk, core)
}

#[async_std::test]
async fn storage_fault_during_flushing_append_is_recoverable() {
    let signing_key = generate_signing_key();
    let key_pair = PartialKeypair {
        public: signing_key.verifying_key(),
        secret: Some(signing_key),
    };

    // Dry run: count the storage operations performed by the call under test.
    let total_ops = {
        let (disk, mut core) = prepare(&key_pair).await;
        {
            let mut faults = disk.faults.lock().unwrap();
            faults.armed = true;
            faults.counter = 0;
            faults.fail_at = None;
        }
        core.append(&block(ACKED)).await.expect("fault-free append");
        let n = disk.faults.lock().unwrap().counter;
        n
    };
    assert!(total_ops >= 5, "the call under test is expected to flush");

    for fail_at in 0..total_ops {
        let (disk, mut core) = prepare(&key_pair).await;
        {
            let mut faults = disk.faults.lock().unwrap();
            faults.armed = true;
            faults.counter = 0;
            faults.fail_at = Some(fail_at);
        }
        let result = core.append(&block(ACKED)).await;
        {
            let mut faults = disk.faults.lock().unwrap();
            assert!(faults.fired, "fault {fail_at} was not reached");
            faults.armed = false;
        }
        assert!(
            result.is_err(),
            "fault at storage operation {fail_at}/{total_ops}: append returned {result:?}"
        );

        // Drop the instance and reopen the same storage.
        drop(core);
        let storage = open_storage(&disk).await;
        let mut reopened = HypercoreBuilder::new(storage)
            .open(true)
            .build()
            .await
            .unwrap_or_else(|e| {
                panic!("fault at storage operation {fail_at}/{total_ops}: reopen failed: {e}")
            });

        let length = reopened.info().length;
        assert!(
            length == ACKED || length == ACKED + 1,
            "fault at storage operation {fail_at}/{total_ops}: reopened length is {length}, \
             expected {ACKED} (before) or {} (after)",
            ACKED + 1
        );
        for i in 0..length {
            let value = reopened.get(i).await.unwrap_or_else(|e| {
                panic!("fault at storage operation {fail_at}/{total_ops}: get({i}) failed: {e}")
            });
            assert_eq!(
                value,
                Some(block(i)),
                "fault at storage operation {fail_at}/{total_ops}: block {i} differs after reopen"
            );
        }

        // The recovered core keeps working and stays consistent over another reopen.
        let next = reopened.append(b"after-recovery").await.expect("append after recovery");
        assert_eq!(next.length, length + 1);
        drop(reopened);
        let storage = open_storage(&disk).await;
        let mut again = HypercoreBuilder::new(storage)
            .open(true)
            .build()
            .await
            .expect("second reopen");
        assert_eq!(again.info().length, length + 1);
        assert_eq!(
            again.get(length).await.expect("get after second reopen"),
            Some(b"after-recovery".to_vec())
        );
        for i in 0..length {
            assert_eq!(again.get(i).await.expect("get"), Some(block(i)));
        }
    }
}
