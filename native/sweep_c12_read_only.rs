//! Demonstration for C12: after `make_read_only` returns, no storage file may contain the
//! secret key and the core must reopen read-only, for ANY prior history -- including a
//! history in which the oplog has no pending (unflushed) entries when the call is made.
use std::path::Path;

use hypercore::{Hypercore, HypercoreBuilder, HypercoreError, Storage};
use tempfile::Builder;

fn storage_contains_data(dir: &Path, needle: &[u8]) -> bool {
    for file_name in ["bitfield", "data", "oplog", "tree"] {
        let buffer = std::fs::read(dir.join(file_name)).unwrap_or_default();
        if buffer.windows(needle.len()).any(|w| w == needle) {
            return true;
        }
    }
    false
}

async fn create(dir: &Path) -> Hypercore {
    let storage = Storage::new_disk(&dir.to_path_buf(), true).await.unwrap();
    HypercoreBuilder::new(storage).build().await.unwrap()
}

async fn open(dir: &Path) -> Hypercore {
    let storage = Storage::new_disk(&dir.to_path_buf(), false).await.unwrap();
    HypercoreBuilder::new(storage)
        .open(true)
        .build()
        .await
        .unwrap()
}

/// Appends `appends` blocks one by one to a fresh core, makes it read-only and checks C12.
async fn check_make_read_only_after(appends: usize) {
    let dir = Builder::new()
        .prefix("hypercore_demo_c12")
        .tempdir()
        .unwrap();
    let (public, secret) = {
        let mut hypercore = create(dir.path()).await;
        for i in 0..appends {
            hypercore.append(format!("block {i}").as_bytes()).await.unwrap();
        }
        let key_pair = hypercore.key_pair().clone();
        let secret = key_pair.secret.as_ref().unwrap().to_bytes();
        assert!(storage_contains_data(dir.path(), &secret));

        assert!(hypercore.make_read_only().await.unwrap());
        assert!(!hypercore.make_read_only().await.unwrap());
        assert!(!hypercore.info().writeable);
        assert!(matches!(
            hypercore.append(b"nope").await,
            Err(HypercoreError::NotWritable)
        ));
        (key_pair.public, secret)
    };

    // No storage file may contain the secret key any more
    assert!(
        !storage_contains_data(dir.path(), &secret),
        "secret key still on disk after make_read_only ({appends} appends)"
    );
    assert!(!storage_contains_data(dir.path(), &secret[16..]));

    // Reopens read-only, with the same public key and all data intact
    let mut hypercore = open(dir.path()).await;
    assert_eq!(hypercore.key_pair().public, public);
    assert!(
        !hypercore.info().writeable,
        "core reopened writable after make_read_only ({appends} appends)"
    );
    assert_eq!(hypercore.info().length, appends as u64);
    for i in 0..appends {
        assert_eq!(
            hypercore.get(i as u64).await.unwrap().unwrap(),
            format!("block {i}").into_bytes()
        );
    }
    assert!(matches!(
        hypercore.append(b"nope").await,
        Err(HypercoreError::NotWritable)
    ));
    assert_eq!(hypercore.info().length, appends as u64);
}

#[tokio::test]
async fn make_read_only_with_pending_oplog_entries() {
    // 2, 3 and 4 appends leave entries pending in the oplog: works with and without the change
    check_make_read_only_after(2).await;
    check_make_read_only_after(3).await;
    check_make_read_only_after(4).await;
}

#[tokio::test]
async fn make_read_only_right_after_a_flush() {
    // The 1st, 5th, 9th... append flushes bitfield, tree and oplog header, so no oplog
    // entries are pending when make_read_only is called.
    check_make_read_only_after(5).await;
    check_make_read_only_after(1).await;
}

#[tokio::test]
async fn make_read_only_on_reopened_flushed_core() {
    let dir = Builder::new()
        .prefix("hypercore_demo_c12")
        .tempdir()
        .unwrap();
    let secret = {
        let mut hypercore = create(dir.path()).await;
        hypercore
            .append_batch([b"a", b"b", b"c"])
            .await
            .unwrap();
        hypercore.key_pair().secret.as_ref().unwrap().to_bytes()
    };
    {
        let mut hypercore = open(dir.path()).await;
        assert!(hypercore.info().writeable);
        assert!(hypercore.make_read_only().await.unwrap());
    }
    assert!(!storage_contains_data(dir.path(), &secret));
    let mut hypercore = open(dir.path()).await;
    assert!(!hypercore.info().writeable);
    assert_eq!(hypercore.get(2).await.unwrap().unwrap(), b"c");
}
