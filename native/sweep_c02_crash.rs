//! Crash-consistency demonstration for C02.
//!
//! A small in-memory "disk" survives the death of the "process" (the Hypercore instance).
//! Every mutating storage operation (write / del / truncate) is atomic and persisted in
//! issue order. A crash budget says how many mutating operations get through before the
//! process dies; after that, everything fails. For every possible crash point of a fixed
//! workload we reopen the store and require that the log is exactly as it was before or
//! after the call that was in progress, and that it is still usable afterwards.

use std::future::Future;
use std::pin::Pin;
use std::sync::atomic::{AtomicBool, AtomicI64, AtomicU64, Ordering};
use std::sync::Arc;

use futures::lock::Mutex;
use hypercore::{Hypercore, HypercoreBuilder, Storage, StorageTraits, Store};
use random_access_memory::RandomAccessMemory;
use random_access_storage::{RandomAccess, RandomAccessError};

type Fut<'a, T> = Pin<Box<dyn Future<Output = Result<T, RandomAccessError>> + Send + 'a>>;

/// The four files of a hypercore plus the crash control.
#[derive(Clone)]
struct Disk {
    files: [Arc<Mutex<RandomAccessMemory>>; 4],
    /// Number of mutating operations still allowed; negative means unlimited.
    budget: Arc<AtomicI64>,
    crashed: Arc<AtomicBool>,
    /// Number of mutating operations performed so far.
    ops: Arc<AtomicU64>,
}

impl Disk {
    fn new() -> Self {
        Self {
            files: [
                Arc::new(Mutex::new(RandomAccessMemory::default())),
                Arc::new(Mutex::new(RandomAccessMemory::default())),
                Arc::new(Mutex::new(RandomAccessMemory::default())),
                Arc::new(Mutex::new(RandomAccessMemory::default())),
            ],
            budget: Arc::new(AtomicI64::new(-1)),
            crashed: Arc::new(AtomicBool::new(false)),
            ops: Arc::new(AtomicU64::new(0)),
        }
    }

    fn set_budget(&self, budget: i64) {
        self.budget.store(budget, Ordering::SeqCst);
        self.crashed.store(false, Ordering::SeqCst);
    }

    fn dead() -> RandomAccessError {
        RandomAccessError::from(std::io::Error::new(
            std::io::ErrorKind::Other,
            "simulated crash",
        ))
    }

    /// Called before each mutating operation.
    fn before_mutation(&self) -> Result<(), RandomAccessError> {
        if self.crashed.load(Ordering::SeqCst) {
            return Err(Self::dead());
        }
        let budget = self.budget.load(Ordering::SeqCst);
        if budget == 0 {
            self.crashed.store(true, Ordering::SeqCst);
            return Err(Self::dead());
        }
        if budget > 0 {
            self.budget.store(budget - 1, Ordering::SeqCst);
        }
        self.ops.fetch_add(1, Ordering::SeqCst);
        Ok(())
    }

    fn before_read(&self) -> Result<(), RandomAccessError> {
        if self.crashed.load(Ordering::SeqCst) {
            return Err(Self::dead());
        }
        Ok(())
    }

    async fn storage(&self) -> Storage {
        let disk = self.clone();
        Storage::open(
            move |store: Store| {
                let idx = match store {
                    Store::Tree => 0,
                    Store::Data => 1,
                    Store::Bitfield => 2,
                    Store::Oplog => 3,
                };
                let file = CrashFile {
                    disk: disk.clone(),
                    file: disk.files[idx].clone(),
                };
                Box::pin(async move { Ok(Box::new(file) as Box<dyn StorageTraits + Send>) })
            },
            false,
        )
        .await
        .expect("storage open")
    }
}

#[derive(Debug)]
struct CrashFile {
    disk: Disk,
    file: Arc<Mutex<RandomAccessMemory>>,
}

impl std::fmt::Debug for Disk {
    fn fmt(&self, f: &mut std::fmt::Formatter<'_>) -> std::fmt::Result {
        write!(f, "Disk")
    }
}

// Hand-expanded `#[async_trait]` signatures (async-trait is not a direct dev-dependency).
impl RandomAccess for CrashFile {
    fn write<'life0, 'life1, 'async_trait>(
        &'life0 mut self,
        offset: u64,
        data: &'life1 [u8],
    ) -> Fut<'async_trait, ()>
    where
        'life0: 'async_trait,
        'life1: 'async_trait,
        Self: 'async_trait,
    {
        Box::pin(async move {
            self.disk.before_mutation()?;
            self.file.lock().await.write(offset, data).await
        })
    }

    fn read<'life0, 'async_trait>(&'life0 mut self, offset: u64, length: u64) -> Fut<'async_trait, Vec<u8>>
    where
        'life0: 'async_trait,
        Self: 'async_trait,
    {
        Box::pin(async move {
            self.disk.before_read()?;
            self.file.lock().await.read(offset, length).await
        })
    }

    fn del<'life0, 'async_trait>(&'life0 mut self, offset: u64, length: u64) -> Fut<'async_trait, ()>
    where
        'life0: 'async_trait,
        Self: 'async_trait,
    {
        Box::pin(async move {
            self.disk.before_mutation()?;
            self.file.lock().await.del(offset, length).await
        })
    }

    fn truncate<'life0, 'async_trait>(&'life0 mut self, length: u64) -> Fut<'async_trait, ()>
    where
        'life0: 'async_trait,
        Self: 'async_trait,
    {
        Box::pin(async move {
            self.disk.before_mutation()?;
            self.file.lock().await.truncate(length).await
        })
    }

    fn len<'life0, 'async_trait>(&'life0 mut self) -> Fut<'async_trait, u64>
    where
        'life0: 'async_trait,
        Self: 'async_trait,
    {
        Box::pin(async move {
            self.disk.before_read()?;
            self.file.lock().await.len().await
        })
    }

    fn is_empty<'life0, 'async_trait>(&'life0 mut self) -> Fut<'async_trait, bool>
    where
        'life0: 'async_trait,
        Self: 'async_trait,
    {
        Box::pin(async move {
            self.disk.before_read()?;
            self.file.lock().await.is_empty().await
        })
    }

    fn sync_all<'life0, 'async_trait>(&'life0 mut self) -> Fut<'async_trait, ()>
    where
        'life0: 'async_trait,
        Self: 'async_trait,
    {
        Box::pin(async move { Ok(()) })
    }
}

#[derive(Clone, Debug)]
enum Step {
    Append(&'static [u8]),
    Clear(u64, u64),
    Reopen,
    MakeReadOnly,
}

/// What a user can observe of the log.
#[derive(Clone, Debug, PartialEq)]
struct Observed {
    blocks: Vec<Option<Vec<u8>>>,
    writeable: bool,
}

fn apply_to_model(model: &mut Observed, step: &Step) {
    match step {
        Step::Append(data) => model.blocks.push(Some(data.to_vec())),
        Step::Clear(start, end) => {
            for i in *start..*end {
                model.blocks[i as usize] = None;
            }
        }
        Step::Reopen => {}
        Step::MakeReadOnly => model.writeable = false,
    }
}

async fn observe(core: &mut Hypercore) -> Result<Observed, String> {
    let info = core.info();
    let mut blocks = Vec::new();
    for i in 0..info.length {
        let has = core.has(i);
        let block = core
            .get(i)
            .await
            .map_err(|e| format!("get({i}) failed: {e}"))?;
        if has != block.is_some() {
            return Err(format!("has({i}) = {has} but get({i}) = {block:?}"));
        }
        blocks.push(block);
    }
    Ok(Observed {
        blocks,
        writeable: info.writeable,
    })
}

async fn open(disk: &Disk) -> Result<Hypercore, String> {
    HypercoreBuilder::new(disk.storage().await)
        .open(true)
        .build()
        .await
        .map_err(|e| format!("open failed: {e}"))
}

fn workload() -> Vec<Step> {
    vec![
        Step::Append(b"alpha"),
        Step::Append(b"bravo!"),
        Step::Append(b"charlie"),
        Step::Append(b"delta"),
        Step::Append(b"echo-echo"),
        Step::Clear(1, 3),
        Step::Append(b"foxtrot"),
        Step::Reopen,
        Step::Append(b"golf"),
        Step::Clear(0, 1),
        Step::Append(b"hotel"),
        Step::Append(b"india"),
        Step::Append(b"juliett"),
        Step::MakeReadOnly,
    ]
}

/// Runs the workload until it finishes or the disk dies. Returns the index of the step that
/// was in progress when the crash happened, if any.
async fn run(disk: &Disk, crash_after: i64) -> Option<usize> {
    // The creation of the store is not under test: it always completes.
    disk.set_budget(-1);
    let mut core = HypercoreBuilder::new(disk.storage().await)
        .build()
        .await
        .expect("create");
    disk.ops.store(0, Ordering::SeqCst);
    disk.set_budget(crash_after);
    for (i, step) in workload().iter().enumerate() {
        let ok = match step {
            Step::Append(data) => core.append(data).await.is_ok(),
            Step::Clear(start, end) => core.clear(*start, *end).await.is_ok(),
            Step::Reopen => {
                drop(core);
                core = open(disk).await.expect("reopen without crash");
                true
            }
            Step::MakeReadOnly => core.make_read_only().await.is_ok(),
        };
        if !ok {
            assert!(disk.crashed.load(Ordering::SeqCst), "step {i} failed without a crash");
            return Some(i);
        }
    }
    None
}

#[tokio::test]
async fn crash_between_any_two_storage_operations_recovers_to_before_or_after() {
    // Dry run to learn how many mutating storage operations the workload performs.
    let disk = Disk::new();
    assert_eq!(run(&disk, -1).await, None);
    let total = disk.ops.load(Ordering::SeqCst) as i64;
    assert!(total > 20);

    let mut failures: Vec<String> = Vec::new();
    for crash_after in 0..total {
        let disk = Disk::new();
        let in_progress = run(&disk, crash_after)
            .await
            .expect("the budget is smaller than the workload");

        let mut before = Observed {
            blocks: vec![],
            writeable: true,
        };
        for step in &workload()[..in_progress] {
            apply_to_model(&mut before, step);
        }
        let mut after = before.clone();
        apply_to_model(&mut after, &workload()[in_progress]);

        // The process restarts on the surviving disk.
        disk.set_budget(-1);
        let recovered = match open(&disk).await {
            Ok(mut core) => observe(&mut core).await,
            Err(e) => Err(e),
        };
        let recovered = match recovered {
            Ok(recovered) => recovered,
            Err(e) => {
                failures.push(format!(
                    "crash after {crash_after} ops (during step {in_progress} {:?}): {e}",
                    workload()[in_progress]
                ));
                continue;
            }
        };
        if recovered != before && recovered != after {
            failures.push(format!(
                "crash after {crash_after} ops (during step {in_progress} {:?}): recovered {:?}, expected {:?} or {:?}",
                workload()[in_progress], recovered, before, after
            ));
            continue;
        }

        // The recovered core stays usable: one more append (if writeable) and a reopen.
        let mut expected = recovered.clone();
        {
            let mut core = open(&disk).await.expect("second open");
            if expected.writeable {
                core.append(b"after-recovery").await.expect("append after recovery");
                expected.blocks.push(Some(b"after-recovery".to_vec()));
            }
        }
        let mut core = open(&disk).await.expect("third open");
        match observe(&mut core).await {
            Ok(observed) if observed == expected => {}
            other => failures.push(format!(
                "crash after {crash_after} ops (during step {in_progress}): after recovery and one more append got {other:?}, expected {expected:?}"
            )),
        }
    }
    assert!(
        failures.is_empty(),
        "{} of {} crash points broke before-or-after recovery:\n{}",
        failures.len(),
        total,
        failures.join("\n")
    );
}
