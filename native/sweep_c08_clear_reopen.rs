//! Demonstration for C08: has() / contiguous_length must stay exact across
//! clears, flushes and reopens.
//!
//! Both tests keep a plain `Vec<bool>` model of which blocks are held and
//! compare `has(i)` for every index (plus a margin beyond the length) and
//! `info().contiguous_length` against it after every reopen.

use futures::FutureExt;
use hypercore::{Hypercore, HypercoreBuilder, Storage, StorageTraits, Store};
use random_access_memory::RandomAccessMemory;
use random_access_storage::{RandomAccess, RandomAccessError};
use std::future::Future;
use std::pin::Pin;
use std::sync::{Arc, Mutex};

/// A `RandomAccessMemory` that can be shared between successive `Storage` instances, so that a
/// core can be dropped and reopened on the very same bytes (an in-memory "disk").
/// `RandomAccessMemory` never actually suspends, so its futures are resolved on the spot.
#[derive(Debug, Clone)]
struct SharedRam(Arc<Mutex<RandomAccessMemory>>);

type Fut<'a, T> = Pin<Box<dyn Future<Output = Result<T, RandomAccessError>> + Send + 'a>>;

macro_rules! delegate {
    ($self:ident, $method:ident ( $($arg:expr),* )) => {{
        let result = {
            let mut guard = $self.0.lock().unwrap();
            guard
                .$method($($arg),*)
                .now_or_never()
                .expect("RandomAccessMemory futures are always ready")
        };
        Box::pin(async move { result })
    }};
}

impl RandomAccess for SharedRam {
    fn write<'life0, 'life1, 'async_trait>(
        &'life0 mut self,
        offset: u64,
        data: &'life1 [u8],
    ) -> Fut<'async_trait, ()>
    where
        'life0: 'async_trait,
        'life1: 'async_trait,
        Self: 'async_trait,
    {
        delegate!(self, write(offset, data))
    }

    fn read<'life0, 'async_trait>(&'life0 mut self, offset: u64, length: u64) -> Fut<'async_trait, Vec<u8>>
    where
        'life0: 'async_trait,
        Self: 'async_trait,
    {
        delegate!(self, read(offset, length))
    }

    fn del<'life0, 'async_trait>(&'life0 mut self, offset: u64, length: u64) -> Fut<'async_trait, ()>
    where
        'life0: 'async_trait,
        Self: 'async_trait,
    {
        delegate!(self, del(offset, length))
    }

    fn truncate<'life0, 'async_trait>(&'life0 mut self, length: u64) -> Fut<'async_trait, ()>
    where
        'life0: 'async_trait,
        Self: 'async_trait,
    {
        delegate!(self, truncate(length))
    }

    fn len<'life0, 'async_trait>(&'life0 mut self) -> Fut<'async_trait, u64>
    where
        'life0: 'async_trait,
        Self: 'async_trait,
    {
        delegate!(self, len())
    }

    fn is_empty<'life0, 'async_trait>(&'life0 mut self) -> Fut<'async_trait, bool>
    where
        'life0: 'async_trait,
        Self: 'async_trait,
    {
        delegate!(self, is_empty())
    }

    fn sync_all<'life0, 'async_trait>(&'life0 mut self) -> Fut<'async_trait, ()>
    where
        'life0: 'async_trait,
        Self: 'async_trait,
    {
        delegate!(self, sync_all())
    }
}

/// The four "files" of one core.
#[derive(Clone)]
struct Disk {
    tree: SharedRam,
    data: SharedRam,
    bitfield: SharedRam,
    oplog: SharedRam,
}

impl Disk {
    fn new() -> Self {
        let f = || SharedRam(Arc::new(Mutex::new(RandomAccessMemory::default())));
        Self {
            tree: f(),
            data: f(),
            bitfield: f(),
            oplog: f(),
        }
    }

    async fn storage(&self, overwrite: bool) -> Storage {
        let disk = self.clone();
        Storage::open(
            move |store: Store| {
                let file = match store {
                    Store::Tree => disk.tree.clone(),
                    Store::Data => disk.data.clone(),
                    Store::Bitfield => disk.bitfield.clone(),
                    Store::Oplog => disk.oplog.clone(),
                };
                Box::pin(async move { Ok(Box::new(file) as Box<dyn StorageTraits + Send>) })
            },
            overwrite,
        )
        .await
        .unwrap()
    }
}

async fn create(disk: &Disk) -> Hypercore {
    HypercoreBuilder::new(disk.storage(true).await)
        .build()
        .await
        .unwrap()
}

async fn reopen(disk: &Disk) -> Hypercore {
    HypercoreBuilder::new(disk.storage(false).await)
        .open(true)
        .build()
        .await
        .unwrap()
}

fn assert_matches_model(core: &Hypercore, model: &[bool], stage: &str) {
    let info = core.info();
    assert_eq!(info.length, model.len() as u64, "{stage}: length");
    for (i, held) in model.iter().enumerate() {
        assert_eq!(core.has(i as u64), *held, "{stage}: has({i})");
    }
    for i in model.len()..model.len() + 64 {
        assert!(!core.has(i as u64), "{stage}: has({i}) beyond length");
    }
    let expected_contiguous = model.iter().position(|h| !*h).unwrap_or(model.len()) as u64;
    assert_eq!(
        info.contiguous_length, expected_contiguous,
        "{stage}: contiguous_length"
    );
}

fn model_clear(model: &mut [bool], start: usize, end: usize) {
    let end = end.min(model.len());
    if start < end {
        model[start..end].fill(false);
    }
}

/// Small core, two overlapping clears separated by a flush, then reopen.
#[tokio::test]
async fn overlapping_clears_survive_reopen() {
    let dir = Disk::new();
    let mut model: Vec<bool> = vec![];

    // Session 1: 100 blocks (flushed at once), then a small clear that stays in the oplog.
    {
        let mut core = create(&dir).await;
        let batch: Vec<Vec<u8>> = (0..100u32).map(|i| format!("b{i}").into_bytes()).collect();
        core.append_batch(&batch).await.unwrap();
        model.resize(100, true);
        core.clear(64, 70).await.unwrap();
        model_clear(&mut model, 64, 70);
        assert_matches_model(&core, &model, "session 1");
    }

    // Session 2: first operation after open flushes everything (the repeated clear is a no-op
    // for the bitfield).  Then a bigger clear overlapping the earlier one at its tail.
    {
        let mut core = reopen(&dir).await;
        assert_matches_model(&core, &model, "session 2 open");
        core.clear(64, 70).await.unwrap();
        core.clear(10, 70).await.unwrap();
        model_clear(&mut model, 10, 70);
        assert_matches_model(&core, &model, "session 2");
    }

    // Session 3: the big clear is replayed from the oplog; the next operation flushes
    // bitfield + oplog, after which the oplog no longer carries the clear.
    {
        let mut core = reopen(&dir).await;
        assert_matches_model(&core, &model, "session 3 open");
        core.clear(64, 70).await.unwrap();
        assert_matches_model(&core, &model, "session 3");
    }

    // Session 4: state now comes from the bitfield file alone.
    {
        let core = reopen(&dir).await;
        assert_matches_model(&core, &model, "session 4 open");
    }
}

/// Core spanning two bitfield pages: old data on page 0 is cleared in two overlapping
/// steps while appends continue on page 1, then the core is reopened.
#[tokio::test]
async fn overlapping_clears_on_old_page_while_appending_on_next_page() {
    let dir = Disk::new();
    let mut model: Vec<bool> = vec![];

    {
        let mut core = create(&dir).await;
        let n = 32768 + 10;
        let batch: Vec<Vec<u8>> = (0..n).map(|_| b"x".to_vec()).collect();
        core.append_batch(&batch).await.unwrap();
        model.resize(n, true);

        core.clear(100, 200).await.unwrap();
        model_clear(&mut model, 100, 200);
        // Keep appending (page 1 only) until everything has been flushed for sure.
        for _ in 0..4 {
            core.append(b"y").await.unwrap();
            model.push(true);
        }
        assert_matches_model(&core, &model, "after first clear");

        core.clear(50, 200).await.unwrap();
        model_clear(&mut model, 50, 200);
        for _ in 0..4 {
            core.append(b"z").await.unwrap();
            model.push(true);
        }
        assert_matches_model(&core, &model, "after second clear");
    }

    {
        let core = reopen(&dir).await;
        assert_matches_model(&core, &model, "reopened");
    }
    {
        // And once more, in case the first reopen still had oplog entries to replay.
        let mut core = reopen(&dir).await;
        core.append(b"w").await.unwrap();
        model.push(true);
        drop(core);
        let core = reopen(&dir).await;
        assert_matches_model(&core, &model, "reopened twice");
    }
}
