//! C13 demonstration: a failed `append` must not announce anything to replication subscribers.
//!
//! The core only writes to the tree/bitfield stores on every fourth mutation (the periodic
//! "flush bitfield + tree + oplog" step). This test lets four appends succeed, then makes the
//! tree store reject writes so that the fifth append - the one that performs the periodic flush -
//! returns an error. A subscriber attached to the core must not see any event for that call.
#![cfg(feature = "replication")]

use std::future::Future;
use std::pin::Pin;
use std::sync::atomic::{AtomicBool, Ordering};
use std::sync::Arc;

use futures::future::FutureExt;
use hypercore::replication::Event;
use hypercore::{HypercoreBuilder, Storage, StorageTraits, Store};
use random_access_memory::RandomAccessMemory;
use random_access_storage::{RandomAccess, RandomAccessError};

#[cfg(feature = "async-std")]
use async_std::test as async_test;
#[cfg(feature = "tokio")]
use tokio::test as async_test;

type BoxFut<'a, T> = Pin<Box<dyn Future<Output = Result<T, RandomAccessError>> + Send + 'a>>;

/// In-memory storage whose writes fail while `fail_writes` is set.
#[derive(Debug)]
struct FaultyMemory {
    inner: RandomAccessMemory,
    fail_writes: Arc<AtomicBool>,
}

fn injected() -> RandomAccessError {
    RandomAccessError::IO {
        return_code: None,
        context: Some("injected write fault".to_string()),
        source: std::io::Error::new(std::io::ErrorKind::Other, "injected write fault"),
    }
}

// Hand-expanded `#[async_trait]` signatures (async-trait is not a direct dependency).
impl RandomAccess for FaultyMemory {
    fn write<'life0, 'life1, 'async_trait>(
        &'life0 mut self,
        offset: u64,
        data: &'life1 [u8],
    ) -> BoxFut<'async_trait, ()>
    where
        'life0: 'async_trait,
        'life1: 'async_trait,
        Self: 'async_trait,
    {
        Box::pin(async move {
            if self.fail_writes.load(Ordering::SeqCst) {
                return Err(injected());
            }
            self.inner.write(offset, data).await
        })
    }

    fn read<'life0, 'async_trait>(
        &'life0 mut self,
        offset: u64,
        length: u64,
    ) -> BoxFut<'async_trait, Vec<u8>>
    where
        'life0: 'async_trait,
        Self: 'async_trait,
    {
        Box::pin(async move { self.inner.read(offset, length).await })
    }

    fn del<'life0, 'async_trait>(
        &'life0 mut self,
        offset: u64,
        length: u64,
    ) -> BoxFut<'async_trait, ()>
    where
        'life0: 'async_trait,
        Self: 'async_trait,
    {
        Box::pin(async move { self.inner.del(offset, length).await })
    }

    fn truncate<'life0, 'async_trait>(&'life0 mut self, length: u64) -> BoxFut<'async_trait, ()>
    where
        'life0: 'async_trait,
        Self: 'async_trait,
    {
        Box::pin(async move { self.inner.truncate(length).await })
    }

    fn len<'life0, 'async_trait>(&'life0 mut self) -> BoxFut<'async_trait, u64>
    where
        'life0: 'async_trait,
        Self: 'async_trait,
    {
        Box::pin(async move { self.inner.len().await })
    }

    fn is_empty<'life0, 'async_trait>(&'life0 mut self) -> BoxFut<'async_trait, bool>
    where
        'life0: 'async_trait,
        Self: 'async_trait,
    {
        Box::pin(async move { self.inner.is_empty().await })
    }

    fn sync_all<'life0, 'async_trait>(&'life0 mut self) -> BoxFut<'async_trait, ()>
    where
        'life0: 'async_trait,
        Self: 'async_trait,
    {
        Box::pin(async move { self.inner.sync_all().await })
    }
}

fn drain(rx: &mut async_broadcast::Receiver<Event>) -> Vec<Event> {
    let mut out = vec![];
    while let Ok(evt) = rx.try_recv() {
        out.push(evt);
    }
    out
}

#[async_test]
async fn failed_append_announces_nothing() {
    // Only the tree store is faulty; it is written to only by the periodic flush.
    let fail_tree_writes = Arc::new(AtomicBool::new(false));
    let flag = fail_tree_writes.clone();
    let storage = Storage::open(
        move |store: Store| {
            let flag = flag.clone();
            async move {
                let fail_writes = if store == Store::Tree {
                    flag
                } else {
                    Arc::new(AtomicBool::new(false))
                };
                Ok(Box::new(FaultyMemory {
                    inner: RandomAccessMemory::default(),
                    fail_writes,
                }) as Box<dyn StorageTraits + Send>)
            }
            .boxed()
        },
        false,
    )
    .await
    .unwrap();
    let mut core = HypercoreBuilder::new(storage).build().await.unwrap();
    let mut rx = core.event_subscribe();
    let mut rx2 = core.event_subscribe();

    // Four successful appends: the first one flushes, the next three are oplog-only.
    for (i, data) in [b"a", b"b", b"c", b"d"].iter().enumerate() {
        core.append(*data).await.unwrap();
        let events = drain(&mut rx);
        assert_eq!(events.len(), 2, "append {i} should announce upgrade + have");
        assert!(matches!(events[0], Event::DataUpgrade(_)));
        match &events[1] {
            Event::Have(have) => {
                assert_eq!((have.start, have.length, have.drop), (i as u64, 1, false))
            }
            other => panic!("expected Have, got {other:?}"),
        }
    }
    assert_eq!(drain(&mut rx2).len(), 8);

    // The fifth append performs the periodic flush, which now hits the faulty tree store.
    fail_tree_writes.store(true, Ordering::SeqCst);
    let result = core.append(b"e").await;
    assert!(result.is_err(), "append must fail when the tree store fails");

    // A failed call must emit nothing, to any subscriber.
    let events = drain(&mut rx);
    assert!(
        events.is_empty(),
        "failed append announced state changes: {events:?}"
    );
    let events2 = drain(&mut rx2);
    assert!(
        events2.is_empty(),
        "failed append announced state changes to second subscriber: {events2:?}"
    );
}
