#!/bin/bash
h=$1; t=$2; shift 2
cd /scratch/hc
export CARGO_NET_OFFLINE=true
start=$(date +%s)
timeout $t cargo kani -Z stubbing -Z unstable-options --no-memory-safety-checks --harness $h --target-dir /scratch/t_$h "$@" > /scratch/q_$h.log 2>&1
echo "EXIT $? WALL $(( $(date +%s)-start ))" >> /scratch/q_$h.log
