use hypercore::*;
use random_access_storage::{RandomAccess, RandomAccessError};
use std::future::Future;
use std::pin::Pin;
use std::sync::{Arc, Mutex};

#[derive(Debug, Clone, Default)]
pub struct Mem(pub Arc<Mutex<Vec<u8>>>);
type R<'a, T> = Pin<Box<dyn Future<Output = Result<T, RandomAccessError>> + Send + 'a>>;
impl RandomAccess for Mem {
    fn write<'a, 'b, 'c>(&'a mut self, offset: u64, data: &'b [u8]) -> R<'c, ()> where 'a: 'c, 'b: 'c, Self: 'c {
        Box::pin(async move {
            let mut v = self.0.lock().unwrap();
            let end = offset as usize + data.len();
            if v.len() < end { v.resize(end, 0); }
            v[offset as usize..end].copy_from_slice(data);
            Ok(())
        })
    }
    fn read<'a, 'c>(&'a mut self, offset: u64, length: u64) -> R<'c, Vec<u8>> where 'a: 'c, Self: 'c {
        Box::pin(async move {
            let v = self.0.lock().unwrap();
            if offset + length > v.len() as u64 {
                return Err(RandomAccessError::OutOfBounds { offset, end: Some(offset + length), length: v.len() as u64 });
            }
            Ok(v[offset as usize..(offset + length) as usize].to_vec())
        })
    }
    fn del<'a, 'c>(&'a mut self, offset: u64, length: u64) -> R<'c, ()> where 'a: 'c, Self: 'c {
        Box::pin(async move {
            let mut v = self.0.lock().unwrap();
            let len = v.len() as u64;
            if offset > len { return Err(RandomAccessError::OutOfBounds { offset, end: None, length: len }); }
            if offset + length >= len { v.truncate(offset as usize); return Ok(()); }
            for b in &mut v[offset as usize..(offset + length) as usize] { *b = 0; }
            Ok(())
        })
    }
    fn truncate<'a, 'c>(&'a mut self, length: u64) -> R<'c, ()> where 'a: 'c, Self: 'c {
        Box::pin(async move { self.0.lock().unwrap().resize(length as usize, 0); Ok(()) })
    }
    fn len<'a, 'c>(&'a mut self) -> R<'c, u64> where 'a: 'c, Self: 'c {
        Box::pin(async move { Ok(self.0.lock().unwrap().len() as u64) })
    }
    fn is_empty<'a, 'c>(&'a mut self) -> R<'c, bool> where 'a: 'c, Self: 'c {
        Box::pin(async move { Ok(self.0.lock().unwrap().is_empty()) })
    }
    fn sync_all<'a, 'c>(&'a mut self) -> R<'c, ()> where 'a: 'c, Self: 'c {
        Box::pin(async move { Ok(()) })
    }
}

#[derive(Clone, Default)]
pub struct Disk { pub tree: Mem, pub data: Mem, pub bitfield: Mem, pub oplog: Mem }
impl Disk {
    pub async fn storage(&self) -> Storage {
        let d = self.clone();
        Storage::open(move |s: Store| {
            let m = match s { Store::Tree => d.tree.clone(), Store::Data => d.data.clone(), Store::Bitfield => d.bitfield.clone(), Store::Oplog => d.oplog.clone() };
            Box::pin(async move { Ok(Box::new(m) as Box<dyn StorageTraits + Send>) })
        }, false).await.unwrap()
    }
    pub async fn create(&self) -> Hypercore { HypercoreBuilder::new(self.storage().await).build().await.unwrap() }
    pub async fn open(&self) -> Result<Hypercore, HypercoreError> { HypercoreBuilder::new(self.storage().await).open(true).build().await }
}

#[tokio::test]
async fn p1_clear_then_reopen() {
    let d = Disk::default();
    let mut c = d.create().await;
    c.append(b"a").await.unwrap();  // op1 flush
    c.append(b"b").await.unwrap();
    c.clear(0, 1).await.unwrap();   // unflushed clear entry
    assert!(!c.has(0));
    drop(c);
    let mut c = d.open().await.unwrap();
    println!("after reopen: has0={} has1={} info={:?} get0={:?}", c.has(0), c.has(1), c.info(), c.get(0).await);
}

#[tokio::test]
async fn p2_append_reopen_append_crash() {
    let d = Disk::default();
    let mut c = d.create().await;
    c.append(b"a").await.unwrap();  // flush
    c.append(b"bb").await.unwrap(); // entry only
    c.append(b"ccc").await.unwrap(); // entry only
    drop(c);
    let mut c = d.open().await.unwrap();
    println!("reopen1 info={:?}", c.info());
    for i in 0..3 { println!("  get{}={:?}", i, c.get(i).await); }
    c.append(b"dddd").await.unwrap();
    println!("after append info={:?}", c.info());
    drop(c);
    let mut c = d.open().await.unwrap();
    println!("reopen2 info={:?}", c.info());
    for i in 0..4 { println!("  get{}={:?}", i, c.get(i).await); }
}

#[tokio::test]
async fn p3_big_bitfield_reopen() {
    let d = Disk::default();
    let mut c = d.create().await;
    let blocks: Vec<Vec<u8>> = (0..9000).map(|_| vec![1u8]).collect();
    c.append_batch(&blocks).await.unwrap();
    drop(c);
    let c = d.open().await.unwrap();
    println!("9000: has(8191)={} has(8192)={} has(8999)={} has(9000)={} has(32768+8192)={} has(32768+8999)={} has(32768+9000)={}", c.has(8191), c.has(8192), c.has(8999), c.has(9000), c.has(32768+8192), c.has(32768+8999), c.has(32768+9000));
    println!("bitfield file len {}", d.bitfield.0.lock().unwrap().len());
}

#[tokio::test]
async fn p4_two_pages_reopen() {
    let d = Disk::default();
    let mut c = d.create().await;
    let blocks: Vec<Vec<u8>> = (0..33000).map(|_| vec![1u8]).collect();
    c.append_batch(&blocks).await.unwrap();
    drop(c);
    let r = d.open().await;
    println!("33000 reopen: {:?}", r.map(|c| c.info()));
}
