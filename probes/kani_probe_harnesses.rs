#![allow(dead_code, unreachable_pub, missing_docs, missing_debug_implementations)]
use crate::*;
use crate::storage::StorageTraits;
use random_access_storage::{RandomAccess, RandomAccessError};
use std::future::Future;
use std::pin::Pin;
use std::rc::Rc;
use std::cell::RefCell;
use std::task::{Context, Poll, RawWaker, RawWakerVTable, Waker};

pub const CAP: usize = 8192 + 1024;
#[derive(Debug)]
pub struct File { pub len: usize, pub buf: [u8; CAP] }
#[derive(Debug, Clone)]
pub struct Mem(pub Rc<RefCell<File>>);
impl Default for Mem { fn default() -> Self { Mem(Rc::new(RefCell::new(File { len: 0, buf: [0u8; CAP] }))) } }
unsafe impl Send for Mem {}
unsafe impl Sync for Mem {}
impl Mem {
    fn w(&self, offset: u64, data: &[u8]) -> Result<(), RandomAccessError> {
        let mut f = self.0.borrow_mut();
        let off = offset as usize; let end = off + data.len();
        kani::assume(end <= CAP);
        if f.len < end { f.len = end; }
        f.buf[off..end].copy_from_slice(data);
        Ok(())
    }
    fn r(&self, offset: u64, length: u64) -> Result<Vec<u8>, RandomAccessError> {
        let f = self.0.borrow();
        if offset + length > f.len as u64 {
            return Err(RandomAccessError::OutOfBounds { offset, end: Some(offset + length), length: f.len as u64 });
        }
        Ok(f.buf[offset as usize..(offset + length) as usize].to_vec())
    }
    fn d(&self, offset: u64, length: u64) -> Result<(), RandomAccessError> {
        let mut f = self.0.borrow_mut();
        let len = f.len as u64;
        if offset > len { return Err(RandomAccessError::OutOfBounds { offset, end: None, length: len }); }
        if offset + length >= len { let o = offset as usize; let l = f.len; f.buf[o..l].fill(0); f.len = o; return Ok(()); }
        f.buf[offset as usize..(offset + length) as usize].fill(0);
        Ok(())
    }
    fn t(&self, length: u64) -> Result<(), RandomAccessError> {
        let mut f = self.0.borrow_mut();
        let n = length as usize; kani::assume(n <= CAP);
        if n < f.len { let l = f.len; f.buf[n..l].fill(0); }
        f.len = n; Ok(())
    }
}
type R<'a, T> = Pin<Box<dyn Future<Output = Result<T, RandomAccessError>> + Send + 'a>>;
impl RandomAccess for Mem {
    fn write<'a, 'b, 'c>(&'a mut self, offset: u64, data: &'b [u8]) -> R<'c, ()> where 'a: 'c, 'b: 'c, Self: 'c {
        let r = self.w(offset, data); Box::pin(std::future::ready(r))
    }
    fn read<'a, 'c>(&'a mut self, offset: u64, length: u64) -> R<'c, Vec<u8>> where 'a: 'c, Self: 'c {
        let r = self.r(offset, length); Box::pin(std::future::ready(r))
    }
    fn del<'a, 'c>(&'a mut self, offset: u64, length: u64) -> R<'c, ()> where 'a: 'c, Self: 'c {
        let r = self.d(offset, length); Box::pin(std::future::ready(r))
    }
    fn truncate<'a, 'c>(&'a mut self, length: u64) -> R<'c, ()> where 'a: 'c, Self: 'c {
        let r = self.t(length); Box::pin(std::future::ready(r))
    }
    fn len<'a, 'c>(&'a mut self) -> R<'c, u64> where 'a: 'c, Self: 'c {
        let r = Ok(self.0.borrow().len as u64); Box::pin(std::future::ready(r))
    }
    fn is_empty<'a, 'c>(&'a mut self) -> R<'c, bool> where 'a: 'c, Self: 'c {
        let r = Ok(self.0.borrow().len == 0); Box::pin(std::future::ready(r))
    }
    fn sync_all<'a, 'c>(&'a mut self) -> R<'c, ()> where 'a: 'c, Self: 'c {
        Box::pin(std::future::ready(Ok(())))
    }
}

#[derive(Clone, Default)]
pub struct Disk { pub tree: Mem, pub data: Mem, pub bitfield: Mem, pub oplog: Mem }
impl Disk {
    pub async fn storage(&self) -> Storage {
        let d = self.clone();
        Storage::open(move |s: Store| {
            let m = match s { Store::Tree => d.tree.clone(), Store::Data => d.data.clone(), Store::Bitfield => d.bitfield.clone(), Store::Oplog => d.oplog.clone() };
            Box::pin(async move { Ok(Box::new(m) as Box<dyn StorageTraits + Send>) })
        }, false).await.unwrap()
    }
    pub async fn create(&self, kp: PartialKeypair) -> Hypercore { HypercoreBuilder::new(self.storage().await).key_pair(kp).build().await.unwrap() }
    pub async fn open(&self) -> Result<Hypercore, HypercoreError> { HypercoreBuilder::new(self.storage().await).open(true).build().await }
}

pub fn stub_format(_args: std::fmt::Arguments<'_>) -> String { String::new() }

pub fn stub_from_utf8(v: Vec<u8>) -> Result<String, std::string::FromUtf8Error> { Ok(unsafe { String::from_utf8_unchecked(v) }) }

fn noop_waker() -> Waker {
    fn clone(_: *const ()) -> RawWaker { RawWaker::new(std::ptr::null(), &VT) }
    fn noop(_: *const ()) {}
    static VT: RawWakerVTable = RawWakerVTable::new(clone, noop, noop, noop);
    unsafe { Waker::from_raw(RawWaker::new(std::ptr::null(), &VT)) }
}
pub fn block_on<F: Future>(f: F) -> F::Output {
    let w = noop_waker();
    let mut cx = Context::from_waker(&w);
    let mut f = Box::pin(f);
    loop { if let Poll::Ready(v) = f.as_mut().poll(&mut cx) { return v; } }
}
fn kp() -> PartialKeypair {
    let sk = SigningKey::from_bytes(&[7u8; 32]);
    PartialKeypair { public: sk.verifying_key(), secret: Some(sk) }
}

#[kani::proof]
#[kani::stub(std::fmt::format, stub_format)]
#[kani::stub(std::string::String::from_utf8, stub_from_utf8)]
#[kani::unwind(70)]
fn probe_new_only() {
    block_on(async {
        let d = Disk::default();
        let c = d.create(kp()).await;
        assert!(c.info().length == 0);
    });
}

#[kani::proof]
#[kani::stub(std::fmt::format, stub_format)]
#[kani::stub(std::string::String::from_utf8, stub_from_utf8)]
#[kani::unwind(1026)]
fn probe_new_append() {
    block_on(async {
        let d = Disk::default();
        let mut c = d.create(kp()).await;
        let o = c.append(b"a").await.unwrap();
        assert!(o.length == 1);
        assert!(c.has(0));
    });
}

use crate::oplog::Entry;
use crate::common::BitfieldUpdate;
use compact_encoding::CompactEncoding;

#[kani::proof]
#[kani::stub(std::fmt::format, stub_format)]
#[kani::stub(std::string::String::from_utf8, stub_from_utf8)]
#[kani::unwind(12)]
fn probe_entry_roundtrip_bitfield_only() {
    let e = Entry {
        user_data: vec![],
        tree_nodes: vec![],
        tree_upgrade: None,
        bitfield: Some(BitfieldUpdate { drop: kani::any(), start: kani::any(), length: kani::any() }),
    };
    let n = e.encoded_size().unwrap();
    kani::assume(n <= 24);
    let mut buf = [0u8; 24];
    let rest = e.encode(&mut buf[..n]).unwrap();
    assert!(rest.is_empty());
    let (d, rest) = Entry::decode(&buf[..n]).unwrap();
    assert!(rest.is_empty());
    assert!(d.bitfield == e.bitfield);
    assert!(d.tree_upgrade.is_none());
}

use crate::bitfield::Bitfield;
use crate::common::{StoreInfo, StoreInfoType};
#[kani::proof]
#[kani::stub(std::fmt::format, stub_format)]
#[kani::stub(std::string::String::from_utf8, stub_from_utf8)]
fn probe_bitfield_flush_open() {
    let mut b = match Bitfield::open(Some(StoreInfo::new_content(Store::Bitfield, 0, &[]))) {
        futures::future::Either::Right(b) => b, _ => unreachable!() };
    let start: u64 = kani::any(); let len: u64 = kani::any();
    kani::assume(start < 32768 && len >= 1 && len <= 32768 - start);
    b.set_range(start, len, true);
    let infos = b.flush();
    assert!(infos.len() == 1);
    assert!(infos[0].index == 0);
    let data = infos[0].data.as_ref().unwrap();
    assert!(data.len() == 4096);
    let b2 = match Bitfield::open(Some(StoreInfo::new_content(Store::Bitfield, 0, data))) {
        futures::future::Either::Right(b) => b, _ => unreachable!() };
    let i: u64 = kani::any();
    kani::assume(i < 4 * 32768);
    assert!(b2.get(i) == (i >= start && i < start + len));
}

#[kani::proof]
#[kani::stub(std::fmt::format, stub_format)]
#[kani::stub(std::string::String::from_utf8, stub_from_utf8)]
#[kani::unwind(130)]
fn probe_blake2_leaf_cost() {
    let x: [u8; 2] = kani::any();
    let h = crate::crypto::Hash::data(&x);
    assert!(h.as_bytes().len() == 32);
}
